#!/bin/bash
# usage: lib/sweep.sh [tier] [seed] [props...]  -> one summary line per property
tier=${1:-quick}; seed=${2:-1}; shift 2 2>/dev/null
props=${@:-C01 C02 C03 C04 C05 C06 C07 C08 C09 C10 C11 C12 C13 C14 C15 C16 C17 C18 C19 C20}
cd "$(dirname "$0")/.."
for p in $props; do
  out=$(./check $p --tier $tier --seed $seed ${SWEEP_ARGS:-} 2>&1)
  echo "$out" | grep -E "^(VIOLATION|KNOWN-FINDING|INCONCLUSIVE|HARNESS-BUG|BUILD-FAILED)" | cut -c1-400
  echo "$out" | grep -E "^$p tier" 
  echo "$out" | grep -E "process-fatal|monitors of other" | cut -c1-400
done
