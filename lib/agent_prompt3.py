#!/usr/bin/env python3
"""third-round prompt: same as agent_prompt.py, another worktree, both earlier spots excluded and a pointer to
the parts of the property statement the two earlier changes did not touch (taken from the statement only)"""
import sys, subprocess
pid = sys.argv[1]
AVOID = {
 "C01": ["replication.go sendLatestSnapshot (Term of InstallSnapshotRequest)", "raft.go requestVote (already-voted check and the leadership-transfer flag)"],
 "C02": ["raft.go setupLeaderState (commitment startIndex)", "raft.go dispatchLogs (commit index staged for a CommitTrackingLogStore)"],
 "C03": ["raft.go setupLeaderState (commitment startIndex)", "raft.go configurationChangeChIfStable (the gate for membership changes)"],
 "C04": ["raft.go appendEntries, the term comparison in the conflict-detection loop", "fsm.go runFSM restore closure (lastTerm after a restore)"],
 "C05": ["replication.go pipelineDecode (order of updateLastAppended and the Success check)"],
 "C06": ["raft.go requestVote (getLastLog vs getLastEntry)", "raft.go electSelf (failed persistVote of the own vote)"],
 "C07": ["raft.go appendEntries, the configuration revert on truncation", "raft.go configurationChangeChIfStable"],
 "C08": ["fsm.go applyBatch response cursor of the BatchingFSM path", "raft.go leaderLoop applyCh case (the `ready` slice of a group commit)"],
 "C09": ["replication.go heartbeat (placement of notifyAll)", "raft.go verifyLeader (the voter filter)"],
 "C10": ["snapshot.go takeSnapshot (order of the two requests)", "raft.go installSnapshot (term passed to snapshots.Create)"],
 "C11": ["configuration.go configurations.Clone", "raft.go installSnapshot (order of sink.Close and the size check)"],
 "C12": ["raft.go appendEntries, the setLastLog after storing entries", "raft.go requestVote (log up-to-date comparison)"],
 "C13": ["raft.go checkLeaderLease (which configuration decides who counts)", "raft.go leaderLoop `case <-lease` (interval until the next check)"],
 "C14": ["raft.go runCandidate, reset of candidateFromLeadershipTransfer", "raft.go requestPreVote (the 'we have a leader' rejection)"],
 "C15": ["file_snapshot.go writeMeta (flush/sync order)", "file_snapshot.go snapMetaSlice.Less"],
 "C16": ["net_transport.go decodeResponse", "net_transport.go netPipeline.decodeResponses (read deadline)"],
 "C17": ["raft.go restoreUserSnapshot, the loop that answers in-flight futures", "snapshot.go takeSnapshot (which future carries ShutdownCh)"],
 "C18": ["raft.go setState (where setLeader(\"\", \"\") is called)", "raft.go runLeader (the guard after the NotifyCh push)"],
 "C19": ["log_cache.go LogCache.DeleteRange", "log_cache.go LogCache.StoreLogs (fill before the backend write)"],
 "C20": ["raft.go restoreUserSnapshot, position of the block that aborts in-flight requests", "raft.go installSnapshot (guard on snapshots that do not reach past what was applied)"],
}
STEER = {
 "C01": "the candidate's side (how votes are tallied and the quorum is sized while the membership changes), what a restarted server remembers, and how responses carrying an older or newer term are treated",
 "C02": "the order / skip / repeat part: how processLogs, the FSM goroutine (batches), snapshot restore at start-up or through InstallSnapshot and lastApplied fit together",
 "C03": "durability of acknowledgements: when the leader counts its own disk write, what a follower truncates or overwrites, and what survives a restart of several servers",
 "C04": "the follower's success report when its store misbehaves or the batch overlaps its log, the previous-entry check near a snapshot boundary, and terms never decreasing inside one log",
 "C05": "the follower side (commit index monotone, never beyond the last index) and which configuration the leader's commitment uses while a membership change is in flight (staging / non-voter / removed servers)",
 "C06": "the term never going backwards, what happens when the stable store fails on the term write, who counts as a voting member at grant time, and what a restart reads back",
 "C07": "the rules of nextConfiguration itself (unique addresses, stale prevIndex, promotion), and non-voters / removed servers never campaigning or being counted",
 "C08": "Barrier, the errors that promise 'never stored or applied' (ErrEnqueueTimeout, ErrLeadershipTransferInProgress, ErrNotLeader) and the ordering of returned indexes",
 "C09": "freshness ('after the call was made'), the size of the quorum the leader computes and its own vote, and a caller already superseded by a higher term",
 "C10": "the start-up path of NewRaft: choice of the snapshot to restore, the scan of the log for configurations, the last-log / last-snapshot bookkeeping, RestoreCommittedLogs replay",
 "C11": "the compaction arithmetic (TrailingLogs, what may be deleted), contiguity of the log above the snapshot after a crash, and the order 'snapshot durable, then compact'",
 "C12": "the leader's replication loop: how nextIndex moves after a rejection, when it falls back to sending a snapshot, and what happens after the snapshot was installed",
 "C13": "the bookkeeping of 'last contact' per follower in the replication goroutines (heartbeats vs AppendEntries vs pipeline), and a healthy leader never being deposed",
 "C14": "the candidate's side of pre-vote (when the term is raised, how pre-votes are counted, what a refused pre-vote does) and the reconnect path",
 "C15": "reaping and the retain count, Cancel, the checksum verification in Open, and what List filters out",
 "C16": "connection pooling after errors, the streamed InstallSnapshot body, the heartbeat fast path, the receive side (handleCommand) and timeouts",
 "C17": "the clean-up when a leader steps down or a server shuts down: futures of membership changes, leadership transfer, verify, bootstrap, snapshot, configuration queries",
 "C18": "overrideNotifyBool / LeaderCh always holding the latest transition, and where followers learn the leader's id (AppendEntries, InstallSnapshot, vote handling)",
 "C19": "the lookup in GetLog (index check, slot arithmetic), the pass-through calls, and rewriting an index after a truncation with different cache capacities",
 "C20": "the index the restore burns (later entries above the snapshot index AND all earlier indexes), the refusal conditions, and how followers get the restored state",
}
base = subprocess.check_output([sys.executable, "/verif/lib/agent_prompt.py", pid], text=True)
base = base.replace(f"/tmp/wt/{pid}", f"/tmp/wt3/{pid}").replace(f"/tmp/wt-out/{pid}", f"/tmp/wt-out3/{pid}")
base += ("\n\nNOTE: other engineers have already produced changes for this property in: " + "; ".join(AVOID[pid]) +
         ". Yours must use a DIFFERENT function and a different mechanism and need a different kind of situation to manifest. "
         "Parts of the statement nobody has attacked yet: " + STEER[pid] + ". Prefer a change in that area; a change made of two cooperating edits that each look harmless alone is welcome."
         "\nThe machine is shared with other long-running jobs, so wall-clock based tests are flakier than usual: when a test of the existing suite fails, re-run that test alone (twice) before you conclude anything, and say so in suite_result.\n")
print(base)
