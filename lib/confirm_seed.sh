#!/bin/bash
# usage: lib/confirm_seed.sh <ID> [src-dir] [dest-name]  -> confirms a seeded change in a fresh scratch worktree and stores it under /verif/seeded/<dest-name>/
id=$1; src=${2:-/tmp/wt-out/$id}; dest=${3:-$id}
wt=/tmp/wtc/$id
mkdir -p /tmp/wtc /verif/seeded/$dest
git -C /repo worktree remove --force $wt 2>/dev/null
git -C /repo worktree add -q $wt HEAD || exit 1
name=$(echo demo_${id}_test.go | tr 'A-Z' 'a-z')
cp $src/demo_test.go $wt/$name
tests=$(grep -oE '^func (Test[A-Za-z0-9_]+)' $wt/$name | awk '{print $2}' | paste -sd'|')
cd $wt
clean=$(go test -mod=mod -vet=off -count=1 -timeout 10m -run "^($tests)\$" . 2>&1 | grep -E "^(--- FAIL|ok|FAIL|panic)" | head -5 | tr '\n' ' ')
git apply $src/patch.diff || { echo "APPLY-FAILED"; cd /; git -C /repo worktree remove --force $wt; exit 1; }
mut=$(go test -mod=mod -vet=off -count=1 -timeout 10m -run "^($tests)\$" . 2>&1 | grep -E "^(--- FAIL|ok|FAIL|panic)" | head -5 | tr '\n' ' ')
rm $wt/$name
suite=$(go test -mod=mod -vet=off -count=1 -timeout 25m . 2>&1 | grep -E "^(--- FAIL|ok|FAIL|panic)" | tr '\n' ' ')
# a panic ("timed out waiting for shutdown" under load) aborts the run before the remaining tests: run it again
for k in 1 2; do
  echo "$suite" | grep -q "panic" || break
  suite=$(go test -mod=mod -vet=off -count=1 -timeout 25m . 2>&1 | grep -E "^(--- FAIL|ok|FAIL|panic)" | tr '\n' ' ')" (re-run after an aborted run)"
done
# the suite is wall-clock based: re-run each failed test alone (twice) and keep only the persistent ones
persistent=""
for t in $(echo "$suite" | grep -oE "FAIL: Test[A-Za-z0-9_]+" | awk '{print $2}' | sort -u); do
  [ "$t" = TestFileSS_BadPerm ] && continue
  ok=0
  for k in 1 2; do
    go test -mod=mod -vet=off -count=1 -timeout 10m -run "^$t\$" . >/dev/null 2>&1 && { ok=1; break; }
  done
  [ $ok = 0 ] && persistent="$persistent $t"
done
suite="$suite | persistent failures when re-run alone: [${persistent# }]"
cd /
git -C /repo worktree remove --force $wt
cp $src/patch.diff /verif/seeded/$dest/patch.diff
cp $src/demo_test.go /verif/seeded/$dest/demo_test.go
jq --arg clean "$clean" --arg mut "$mut" --arg suite "$suite" '. + {confirmed_by_me: {demo_on_clean_tree: $clean, demo_with_patch: $mut, pinned_suite_with_patch: $suite}}' $src/meta.json > /verif/seeded/$dest/meta.json
echo "CONFIRM $id clean=[$clean] patched=[$mut] suite=[$suite]"
