#!/usr/bin/env python3
"""Second batch of self-made mutants (same mechanics as mkmut.py): areas the earlier changes did not touch."""
import subprocess, os, json, sys
MUTS = {
 "c01-quorum-even": ("C01", "raft.go", "	return voters/2 + 1\n}", "	return (voters + 1) / 2\n}",
    "quorum size rounded the wrong way: with an even number of voters half of them win an election"),
 "c13-contact-on-error": ("C13", "replication.go", "		r.logger.Error(\"failed to appendEntries to\", \"peer\", peer, \"error\", err)\n		s.failures++\n		return", "		r.logger.Error(\"failed to appendEntries to\", \"peer\", peer, \"error\", err)\n		s.setLastContact()\n		s.failures++\n		return",
    "a failed AppendEntries call refreshes the follower's last contact: a cut-off leader keeps its lease"),
 "c05-follower-commit-any": ("C05", "raft.go", "r.getLastIndex()); idx > r.getCommitIndex() {", "r.getLastIndex()); idx != r.getCommitIndex() {",
    "follower sets its commit index to whatever the request allows, also downwards"),
 "c06-vote-for-nonvoter": ("C06", "raft.go", "		if len(r.configurations.latest.Servers) > 0 && !hasVote(r.configurations.latest, candidateID) {\n			r.logger.Warn(\"rejecting vote request since node is not a voter\", \"from\", candidate)\n			return\n		}", "",
    "votes are granted to candidates that are non-voters in the voter's configuration"),
 "c18-voted-for-is-leader": ("C18", "raft.go", "	resp.Granted = true\n	r.setLastContact()\n}\n\n// requestPreVote", "	resp.Granted = true\n	r.setLastContact()\n	r.setLeader(candidate, ServerID(req.ID))\n}\n\n// requestPreVote",
    "a voter records the candidate it voted for as the leader: when that candidate loses, a follower names a non-leader"),
 "c18-is-leader-before-term": ("C18", "raft.go", "	// Ignore an older term\n	if req.Term < r.getCurrentTerm() {\n		r.logger.Info(\"ignoring installSnapshot request with older term than current term\",", "	if len(req.ID) > 0 {\n		r.setLeader(r.trans.DecodePeer(req.Addr), ServerID(req.ID))\n	}\n	// Ignore an older term\n	if req.Term < r.getCurrentTerm() {\n		r.logger.Info(\"ignoring installSnapshot request with older term than current term\",",
    "the sender of an InstallSnapshot is recorded as leader before its term is checked"),
 "c10-restore-oldest-snapshot": ("C10", "api.go", "	// Try to load in order of newest to oldest\n	for _, snapshot := range snapshots {", "	// Try to load in order of newest to oldest\n	for i := len(snapshots) - 1; i >= 0; i-- {\n		snapshot := snapshots[i]",
    "start-up restores the oldest snapshot instead of the newest"),
 "c17-verify-unanswered-on-stepdown": ("C17", "raft.go", "		for future := range r.leaderState.notify {\n			future.respond(ErrLeadershipLost)\n		}", "",
    "pending VerifyLeader futures are not answered when the leader steps down"),
 "c20-restore-during-transfer": ("C20", "raft.go", "		case future := <-r.userRestoreCh:\n			r.mainThreadSaturation.working()\n			if r.getLeadershipTransferInProgress() {\n				r.logger.Debug(ErrLeadershipTransferInProgress.Error())\n				future.respond(ErrLeadershipTransferInProgress)\n				continue\n			}\n			err := r.restoreUserSnapshot", "		case future := <-r.userRestoreCh:\n			r.mainThreadSaturation.working()\n			err := r.restoreUserSnapshot",
    "user Restore is not refused while a leadership transfer is in progress"),
 "c08-barrier-at-commit": ("C08", "raft.go", "	case LogBarrier:\n		// Barrier is handled by the FSM\n		fallthrough\n\n	case LogCommand:", "	case LogBarrier:\n\n	case LogCommand:",
    "Barrier is answered when it commits instead of travelling through the FSM queue behind earlier entries"),
 "c16-return-conn-after-error": ("C16", "net_transport.go", "	canReturn, err := decodeResponse(conn, resp)\n	if canReturn {\n		n.returnConn(conn)\n	}\n	return err", "	_, err = decodeResponse(conn, resp)\n	n.returnConn(conn)\n	return err",
    "a connection is pooled again after a failed decode"),
 "c15-reap-one-too-many": ("C15", "file_snapshot.go", "	for i := f.retain; i < len(snapshots); i++ {", "	for i := f.retain - 1; i < len(snapshots) && len(snapshots) > 1; i++ {",
    "reaping keeps one snapshot fewer than retain"),
 "c12-no-snapshot-fallback": ("C12", "replication.go", "lastIndex); err == ErrLogNotFound {\n		goto SEND_SNAP\n	} else if err != nil {", "lastIndex); err != nil {",
    "a follower that needs compacted entries is never sent a snapshot"),
 "c04-prev-ignores-snapshot": ("C12", "replication.go", "	} else if (nextIndex - 1) == lastSnapIdx {\n		req.PrevLogEntry = lastSnapIdx\n		req.PrevLogTerm = lastSnapTerm\n", "	} else if (nextIndex-1) == lastSnapIdx && false {\n		req.PrevLogEntry = lastSnapIdx\n		req.PrevLogTerm = lastSnapTerm\n",
    "the leader does not take the previous entry from its snapshot record when the entry is compacted away"),
 "c02-startup-lastapplied-minus-one": ("C02", "api.go", "		// Update the lastApplied so we don't replay old logs\n		r.setLastApplied(snapshot.Index)", "		// Update the lastApplied so we don't replay old logs\n		r.setLastApplied(snapshot.Index - 1)",
    "after the start-up restore the entry at the snapshot index is applied a second time"),
 "c03-truncate-on-index": ("C03", "raft.go", "			if entry.Term != storeEntry.Term {\n				r.logger.Warn(\"clearing log suffix\"", "			if entry.Term != storeEntry.Term || i == len(a.Entries)-1 && entry.Index < lastLogIdx {\n				r.logger.Warn(\"clearing log suffix\"",
    "a follower truncates everything behind the last entry of a request even when nothing conflicts (a delayed, shorter request deletes committed entries)"),
 "c09-verify-votes-start-two": ("C09", "raft.go", "	// Current leader always votes for self\n	v.votes = 1", "	// Current leader always votes for self\n	v.votes = 2",
    "VerifyLeader starts its tally one vote too high"),
 "c07-nonvoter-campaigns": ("C07", "raft.go", "				if hasVote(r.configurations.latest, r.localID) {\n					r.logger.Warn(\"heartbeat timeout reached, starting election\"", "				if inConfiguration(r.configurations.latest, r.localID) {\n					r.logger.Warn(\"heartbeat timeout reached, starting election\"",
    "a non-voter whose latest configuration is uncommitted starts an election on heartbeat timeout"),
 "c14-term-bump-before-prevote": ("C14", "raft.go", "	if !r.preVoteDisabled && !r.candidateFromLeadershipTransfer.Load() {\n		prevoteCh = r.preElectSelf()", "	if !r.preVoteDisabled && !r.candidateFromLeadershipTransfer.Load() && r.Leader() != \"\" {\n		prevoteCh = r.preElectSelf()",
    "pre-vote is skipped by a candidate that knows no leader (every candidate: the leader is cleared on the way in)"),
 "c11-lastsnapshot-before-close": ("C11", "snapshot.go", "	// Close and check for error.\n	if err := sink.Close(); err != nil {\n		return \"\", fmt.Errorf(\"failed to close snapshot: %v\", err)\n	}\n\n	// Update the last stable snapshot info.\n	r.setLastSnapshot(snapReq.index, snapReq.term)\n\n	// Compact the logs.\n	if err := r.compactLogs(snapReq.index); err != nil {\n		return \"\", err\n	}\n",
    "	// Update the last stable snapshot info.\n	r.setLastSnapshot(snapReq.index, snapReq.term)\n\n	// Compact the logs.\n	if err := r.compactLogs(snapReq.index); err != nil {\n		return \"\", err\n	}\n\n	// Close and check for error.\n	if err := sink.Close(); err != nil {\n		return \"\", fmt.Errorf(\"failed to close snapshot: %v\", err)\n	}\n",
    "logs are compacted before the snapshot is durable"),
 "c19-getlog-no-index-check": ("C19", "log_cache.go", "	if cached != nil && cached.Index == idx {", "	if cached != nil {",
    "cache lookup without the index check"),
}
only = set(sys.argv[1:])
for name,(prop,f,old,new,desc) in MUTS.items():
    if only and name not in only: continue
    path='/repo/'+f
    src=open(path).read()
    if src.count(old)!=1:
        print("SKIP",name,"anchor count",src.count(old)); continue
    open(path,'w').write(src.replace(old,new))
    d='/verif/seeded/self-'+name
    diff=subprocess.run(['git','-C','/repo','diff'],capture_output=True,text=True).stdout
    b=subprocess.run(['go','build','-mod=mod','./...'],cwd='/repo',capture_output=True,text=True)
    b2=subprocess.run(['go','vet','-mod=mod','-tags','verif','.'],cwd='/repo',capture_output=True,text=True) if b.returncode==0 else b
    subprocess.run(['git','-C','/repo','checkout','--','.'])
    if b.returncode!=0:
        print("NOBUILD",name,b.stderr[:300]); continue
    os.makedirs(d,exist_ok=True)
    open(d+'/patch.diff','w').write(diff)
    json.dump({"property":prop,"origin":"self-made mutant, second batch","summary":desc,"needs_to_manifest":"see summary","confirmed":"compiles; pinned suite not run for self-made mutants unless stated; detection recorded in DESIGN 8.6"},open(d+'/meta.json','w'),indent=1)
    print("ok",name)
