#!/bin/bash
# usage: lib/mutant.sh <seeded-dir-name> [prop ...]   applies seeded/<name>/patch.diff to /repo, runs the checks (quick, no evidence), reverts
name=$1; shift
d=/verif/seeded/$name
prop=$(jq -r .property $d/meta.json)
props=${@:-$prop}
cd /repo && git apply $d/patch.diff || { echo "APPLY-FAILED $name"; exit 1; }
trap 'git -C /repo checkout -- . ; git -C /repo clean -fdq' EXIT
cd /verif
for p in $props; do
  out=$(./check $p --tier ${TIER:-quick} --no-evidence --seed ${SEED:-1} 2>&1)
  v=$(echo "$out" | grep -cE "^VIOLATION property=$p ")
  sigs=$(echo "$out" | grep -E "^VIOLATION property=$p " | sed -E 's/.*sig=([^ ]+).*/\1/' | sort -u | tr '\n' ',' )
  tail=$(echo "$out" | grep -E "^$p tier" | sed -E 's/.*(executions=[0-9]+).*(violations=[0-9]+).*(fatal=[0-9]+).*(wall=[0-9.]+s).*(exit=[0-9]+)/\1 \2 \3 \4 \5/')
  other=$(echo "$out" | grep -E "monitors of other|BUILD-FAILED|INCONCLUSIVE" | cut -c1-300)
  echo "MUTANT $name check=$p detected=$([ $v -gt 0 ] && echo YES || echo no) sigs=[$sigs] $tail $other"
done
