#!/usr/bin/env python3
"""Renders DESIGN.md section 8.6 (seeded changes vs. checks) from seeded/*/meta.json and seeded/RESULTS.txt
(written by lib/mutants_all.sh). The section lives between the markers <!-- 8.6 begin --> and <!-- 8.6 end -->."""
import json, os, re
root = "/verif/seeded"
res = {}
for l in open(os.path.join(root, "RESULTS.txt")):
    m = re.match(r"MUTANT (\S+) check=(\S+) detected=(\S+) sigs=\[([^\]]*)\] (.*)", l)
    if not m:
        continue
    name, chk, det, sigs, rest = m.groups()
    other = ""
    mo = re.search(r"monitors of other properties that fired during this run: (.*?)\)", rest)
    if mo:
        other = mo.group(1)
    lst = [x for x in res.get(name, []) if x[0] != chk]  # a later run of the same check replaces an earlier one
    lst.append((chk, det, sigs.strip(","), other))
    res[name] = lst
rows = []
for name in sorted(os.listdir(root)):
    mp = os.path.join(root, name, "meta.json")
    if not os.path.exists(mp):
        continue
    meta = json.load(open(mp))
    summ = meta.get("summary", "").replace("|", "/").replace("\n", " ")
    summ = summ if len(summ) < 230 else summ[:227] + "..."
    origin = "own" if name.startswith("self-") else ("sub-agent, round 2" if name.endswith("b") else ("sub-agent, round 3" if name.endswith("c") else "sub-agent"))
    for chk, det, sigs, other in res.get(name, [("?", "not run", "", "")]):
        other = re.sub(r" x\d+", "", other)
        if len(other) > 160:
            other = other[:157] + "..."
        rows.append(f"| `{name}` | {origin} | {summ} | {chk} quick: **{'caught' if det == 'YES' else 'missed'}** {('`' + sigs.replace(',', '`, `') + '`') if sigs else ''} | {other} |")
table = "| change | origin | what it does | its property's check | other monitors that fired in the same run |\n|---|---|---|---|---|\n" + "\n".join(rows) + "\n"
p = "/verif/DESIGN.md"
s = open(p).read()
b, e = "<!-- 8.6 begin -->", "<!-- 8.6 end -->"
if b in s:
    s = s[:s.index(b) + len(b)] + "\n" + table + s[s.index(e):]
    open(p, "w").write(s)
    print("8.6 table updated:", len(rows), "rows")
else:
    print("markers missing")
