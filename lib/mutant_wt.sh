#!/bin/bash
# usage: lib/mutant_wt.sh <seeded-dir-name> [prop ...]   like mutant.sh, but the change is applied to a scratch worktree of /repo
# (RV_REPO), so checks running against /repo itself at the same time are not disturbed. TIER, SEED as in mutant.sh.
name=$1; shift
d=/verif/seeded/$name
[ -d "$d" ] || d=$name
prop=$(jq -r .property $d/meta.json)
props=${@:-$prop}
wt=/tmp/mwt/$(basename $d)-$$
mkdir -p /tmp/mwt
git -C /repo worktree add -q --detach $wt HEAD || exit 1
alt=$HOME/.cache/rv/alt-$(python3 -c "import hashlib,sys;print(hashlib.sha1(sys.argv[1].encode()).hexdigest()[:10])" $wt)
trap 'git -C /repo worktree remove --force '$wt' 2>/dev/null; rm -rf '$alt' 2>/dev/null' EXIT
git -C $wt apply $d/patch.diff || { echo "APPLY-FAILED $name"; exit 1; }
cd /verif
for p in $props; do
  out=$(RV_REPO=$wt ./check $p --tier ${TIER:-quick} --no-evidence --seed ${SEED:-1} 2>&1)
  v=$(echo "$out" | grep -cE "^VIOLATION property=$p ")
  sigs=$(echo "$out" | grep -E "^VIOLATION property=$p " | sed -E 's/.*sig=([^ ]+).*/\1/' | sort -u | tr '\n' ',' )
  tail=$(echo "$out" | grep -E "^$p tier" | sed -E 's/.*(executions=[0-9]+).*(violations=[0-9]+).*(fatal=[0-9]+).*(wall=[0-9.]+s).*(exit=[0-9]+)/\1 \2 \3 \4 \5/')
  other=$(echo "$out" | grep -E "monitors of other|BUILD-FAILED|INCONCLUSIVE" | cut -c1-300)
  echo "MUTANT $(basename $d) check=$p detected=$([ $v -gt 0 ] && echo YES || echo no) sigs=[$sigs] $tail $other"
done
