#!/usr/bin/env python3
"""compact trace viewer: trace.py <events.jsonl> [--srv s0,s1] [--from Q] [--to Q] [--kinds d.,h.,r.] [--max N] [--nohb]"""
import json, sys, argparse
ap = argparse.ArgumentParser()
ap.add_argument("file"); ap.add_argument("--srv", default=""); ap.add_argument("--from", dest="q0", type=int, default=0)
ap.add_argument("--to", dest="q1", type=int, default=1 << 60); ap.add_argument("--kinds", default=""); ap.add_argument("--max", type=int, default=80)
ap.add_argument("--nohb", action="store_true"); ap.add_argument("--grep", default="")
a = ap.parse_args()
srv = set(a.srv.split(",")) if a.srv else None
kinds = a.kinds.split(",") if a.kinds else None
sends = {}
n = 0
for line in open(a.file):
    try:
        e = json.loads(line)
    except Exception:
        continue
    if e["k"] == "r.send":
        sends[e["a"]] = e
    if not (a.q0 <= e["q"] <= a.q1):
        continue
    if srv and not (e.get("s") in srv or e.get("x") in srv):
        continue
    if kinds and not any(e["k"].startswith(k) for k in kinds):
        continue
    if a.nohb and e["k"].startswith("r."):
        s = sends.get(e.get("a"))
        if s is not None and s.get("y") == "ae" and not s.get("n") and s.get("c", 0) == 0:
            continue
    if a.grep and a.grep not in line:
        continue
    d = {k: v for k, v in e.items() if k not in ("r", "p", "q", "t", "k", "s", "e")}
    if "n" in d:
        d["n"] = "%d..%d" % (d["n"][0]["i"], d["n"][-1]["i"]) + "t" + ",".join(sorted({str(x["t"]) for x in d["n"]}))
    if "y" in d and len(str(d["y"])) > 40:
        d["y"] = str(d["y"])[:40]
    print("%6d %7dms %-16s %s/%s %s" % (e["q"], e["t"] // 1000000, e["k"], e.get("s", "-"), e.get("e", 0), " ".join("%s=%s" % kv for kv in d.items())))
    n += 1
    if n >= a.max:
        print("... (max reached)")
        break
