HOOK_COMMITS = ["c59b68b"]
NOT_APPLICABLE = {}
META = {
    "C12": {
        "engine": "SIM",
        "text": "Bounded-progress restatement decided by an oracle over recorded executions: after the last fault, within the virtual-time budget, exactly one leader, a probe write succeeds, every connected member has applied it and holds the leader's FSM state; no snapshot is re-installed repeatedly and no zero-virtual-time retry loop occurs; any panic of a live server is attributed here. Exploration, not enumeration: the eventual form of the property is not decidable by monitoring.",
        "design_ref": "DESIGN.md section 3 C12, section 2.3",
        "note": "Trusts: the synctest fake clock, the harness transport/disks (section 2.3), the convergence budget B=20*ElectionTimeout+10s of virtual time as a stand-in for 'bounded'.",
        "technique": "runtime monitoring: offline oracle over event logs of fault-injected cluster executions in virtual time",
    },
}
