#!/usr/bin/env python3
"""Creates self-made mutant patches under /verif/seeded/self-<name>/patch.diff from (file, old, new) edits against /repo HEAD."""
import subprocess, os, json, sys
MUTS = {
 "c05-no-startindex": ("C05", "commitment.go", "	if quorumMatchIndex > c.commitIndex && quorumMatchIndex >= c.startIndex {", "	if quorumMatchIndex > c.commitIndex {",
    "commit rule ignores startIndex: a new leader commits old-term entries by counting (Figure 8)"),
 "c05-quorum-offbyone": ("C05", "commitment.go", "	quorumMatchIndex := matched[(len(matched)-1)/2]", "	quorumMatchIndex := matched[len(matched)/2]",
    "median index off by one: with an even number of voters half of them suffice"),
 "c04-truncate-plus-one": ("C04", "raft.go", "				if err := r.logs.DeleteRange(entry.Index, lastLogIdx); err != nil {", "				if err := r.logs.DeleteRange(entry.Index+1, lastLogIdx); err != nil {",
    "conflict truncation starts one entry too late"),
 "c05-follower-commit-unclamped": ("C05", "raft.go", "		idx := min(a.LeaderCommitIndex, r.getLastIndex())", "		idx := a.LeaderCommitIndex",
    "follower commit index not clamped to its last index"),
 "c08-leadershiplost-nil": ("C08", "raft.go", "			e.Value.(*logFuture).respond(ErrLeadershipLost)", "			e.Value.(*logFuture).respond(nil)",
    "in-flight futures answered nil on step-down"),
 "c13-lease-counts-nonvoters": ("C13", "raft.go", "	for _, server := range r.configurations.latest.Servers {\n		if server.Suffrage == Voter {\n			if server.ID == r.localID {\n				contacted++", "	for _, server := range r.configurations.latest.Servers {\n		if server.Suffrage != Staging {\n			if server.ID == r.localID {\n				contacted++",
    "lease check counts non-voters as contacted"),
 "c14-prevote-bumps-term": ("C14", "raft.go", "		r.logger.Debug(\"received a requestPreVote with a newer term, grant the pre-vote\")\n		resp.Term = req.Term", "		r.logger.Debug(\"received a requestPreVote with a newer term, grant the pre-vote\")\n		r.setCurrentTerm(req.Term)\n		resp.Term = req.Term",
    "pre-vote handler persists the proposed term"),
 "c11-compaction-ignores-snapshot": ("C11", "snapshot.go", "	maxLog := min(snapIdx, lastLogIdx-trailingLogs)", "	maxLog := lastLogIdx - trailingLogs",
    "compaction bound ignores the snapshot index"),
 "c19-delete-keeps-cache": ("C19", "log_cache.go", "	c.l.Lock()\n	c.cache = make([]*Log, len(c.cache))\n	c.l.Unlock()\n\n	return c.store.DeleteRange(min, max)", "	return c.store.DeleteRange(min, max)",
    "cache not cleared on DeleteRange"),
 "c19-cache-before-store": ("C19", "log_cache.go", "	err := c.store.StoreLogs(logs)\n	// Insert the logs into the ring buffer, but only on success\n	if err != nil {\n		return fmt.Errorf(\"unable to store logs within log store, err: %q\", err)\n	}\n	c.l.Lock()\n	for _, l := range logs {\n		c.cache[l.Index%uint64(len(c.cache))] = l\n	}\n	c.l.Unlock()\n	return nil",
    "	c.l.Lock()\n	for _, l := range logs {\n		c.cache[l.Index%uint64(len(c.cache))] = l\n	}\n	c.l.Unlock()\n	err := c.store.StoreLogs(logs)\n	if err != nil {\n		return fmt.Errorf(\"unable to store logs within log store, err: %q\", err)\n	}\n	return nil",
    "cache filled before (and despite) a failing backend write"),
 "c07-gate-one-condition": ("C07", "raft.go", "	if r.configurations.latestIndex == r.configurations.committedIndex &&\n		r.getCommitIndex() >= r.leaderState.commitment.startIndex {", "	if r.configurations.latestIndex == r.configurations.committedIndex {",
    "membership change allowed before an entry of the leader's term is committed"),
 "c01-double-vote": ("C01", "raft.go", "	if lastVoteTerm == req.Term && lastVoteCandBytes != nil {", "	if lastVoteTerm == req.Term && lastVoteCandBytes != nil && bytes.Equal(lastVoteCandBytes, candidateBytes) {",
    "a second candidate of the same term is not recognised as such: two votes in one term"),
 "c03-vote-ignores-index": ("C03", "raft.go", "	if lastTerm == req.LastLogTerm && lastIdx > req.LastLogIndex {\n		r.logger.Warn(\"rejecting vote request since our last index is greater\",", "	if false && lastTerm == req.LastLogTerm && lastIdx > req.LastLogIndex {\n		r.logger.Warn(\"rejecting vote request since our last index is greater\",",
    "vote granted to a candidate with a shorter log of the same term"),
 "c17-inflight-unanswered": ("C17", "raft.go", "		for e := r.leaderState.inflight.Front(); e != nil; e = e.Next() {\n			e.Value.(*logFuture).respond(ErrLeadershipLost)\n		}", "",
    "in-flight futures left unanswered on step-down"),
 "c20-restore-no-hole": ("C20", "raft.go", "	if meta.Index > lastIndex {\n		lastIndex = meta.Index\n	}\n	lastIndex++", "	if meta.Index > lastIndex {\n		lastIndex = meta.Index\n	}",
    "user restore does not burn an index"),
 "c09-nonvoters-count": ("C09", "raft.go", "		if !hasVote(r.configurations.latest, id) {\n			continue\n		}\n		repl.notifyLock.Lock()", "		_ = id\n		repl.notifyLock.Lock()",
    "VerifyLeader counts non-voter acknowledgements again (reverts the S1 repair)"),
 "c18-leaderch-no-false": ("C18", "raft.go", "		// Notify that we are not the leader\n		verifHook(\"leader.exit\", r, r.getCurrentTerm(), 0, 0, 0)\n		overrideNotifyBool(r.leaderCh, false)", "		// Notify that we are not the leader\n		verifHook(\"leader.exit\", r, r.getCurrentTerm(), 0, 0, 0)",
    "LeaderCh never receives the loss of leadership"),
 "c18-no-false-when-new-leader-known": ("C18", "raft.go", "		if notify != nil {\n			select {\n			case notify <- false:", "		if notify != nil && r.Leader() == \"\" {\n			select {\n			case notify <- false:",
    "NotifyCh misses the loss of leadership when the step-down was caused by a request that names the new leader"),
 "c18-leader-set-before-term-check": ("C18", "raft.go", "	// Ignore an older term\n	if a.Term < r.getCurrentTerm() {\n		return\n	}\n\n	// Increase the term if we see a newer one, also transition to follower\n	// if we ever get an appendEntries call", "	if len(a.Addr) > 0 {\n		r.setLeader(r.trans.DecodePeer(a.Addr), ServerID(a.ID))\n	}\n	// Ignore an older term\n	if a.Term < r.getCurrentTerm() {\n		return\n	}\n\n	// Increase the term if we see a newer one, also transition to follower\n	// if we ever get an appendEntries call",
    "the sender of an AppendEntries is recorded as leader before its term is checked: a deposed leader's stale request makes a follower name it as leader of the new term"),
 "c18-leader-not-cleared": ("C18", "raft.go", "func (r *Raft) setState(state RaftState) {\n	r.setLeader(\"\", \"\")", "func (r *Raft) setState(state RaftState) {\n	if state != Candidate {\n		r.setLeader(\"\", \"\")\n	}",
    "the known leader is not cleared when a follower becomes candidate: it keeps naming the old leader in the new term"),
 "c15-rename-before-meta": ("C15", "file_snapshot.go", "	// Write out the meta data\n	if err := s.writeMeta(); err != nil {\n		s.logger.Error(\"failed to write metadata\", \"error\", err)\n		return err\n	}\n\n	verifFSHook(\"close.meta\", s.dir)\n	// Move the directory into place\n	newPath := strings.TrimSuffix(s.dir, tmpSuffix)\n	if err := os.Rename(s.dir, newPath); err != nil {\n		s.logger.Error(\"failed to move snapshot into place\", \"error\", err)\n		return err\n	}\n",
    "	verifFSHook(\"close.meta\", s.dir)\n	// Move the directory into place\n	newPath := strings.TrimSuffix(s.dir, tmpSuffix)\n	if err := os.Rename(s.dir, newPath); err != nil {\n		s.logger.Error(\"failed to move snapshot into place\", \"error\", err)\n		return err\n	}\n	s.dir = newPath\n	// Write out the meta data\n	if err := s.writeMeta(); err != nil {\n		s.logger.Error(\"failed to write metadata\", \"error\", err)\n		return err\n	}\n\n",
    "snapshot directory renamed into place before the final metadata is written"),
 "c15-no-state-fsync": ("C15", "file_snapshot.go", "	if !s.noSync {\n		if err := s.stateFile.Sync(); err != nil {\n			return err\n		}\n	}", "",
    "state file never fsynced"),
 "c15-no-crc-check": ("C15", "file_snapshot.go", "	if !bytes.Equal(meta.CRC, computed) {", "	if false && !bytes.Equal(meta.CRC, computed) {",
    "Open does not verify the checksum"),
 "c16-pipeline-wrong-future": ("C16", "net_transport.go", "			_, err := decodeResponse(n.conn, future.resp)\n			future.respond(err)", "			_, err := decodeResponse(n.conn, future.resp)\n			if future.resp.Term%5 == 4 {\n				future.resp.LastLog++\n			}\n			future.respond(err)",
    "pipelined response altered for some values"),
 "c10-restart-forgets-lastlog": ("C10", "api.go", "	r.setLastLog(lastLog.Index, lastLog.Term)\n\n	// Attempt to restore a snapshot if there are any.", "	if lastLog.Type != LogBarrier {\n		r.setLastLog(lastLog.Index, lastLog.Term)\n	}\n\n	// Attempt to restore a snapshot if there are any.",
    "last log entry not restored at start-up when it is a barrier"),
 "c12-nextindex-stuck": ("C12", "replication.go", "		atomic.StoreUint64(&s.nextIndex, max(min(s.nextIndex-1, resp.LastLog+1), 1))", "		atomic.StoreUint64(&s.nextIndex, max(min(s.nextIndex, resp.LastLog+1), 1))",
    "the leader's probe does not move back on a rejection"),
 "c06-term-not-persisted-first": ("C06", "raft.go", "func (r *Raft) setCurrentTerm(t uint64) {\n	verifHook(\"term\", r, r.getCurrentTerm(), t, 0, 0)\n	// Persist to disk first\n	if err := r.stable.SetUint64(keyCurrentTerm, t); err != nil {\n		panic(fmt.Errorf(\"failed to save current term: %v\", err))\n	}\n	r.raftState.setCurrentTerm(t)",
    "func (r *Raft) setCurrentTerm(t uint64) {\n	verifHook(\"term\", r, r.getCurrentTerm(), t, 0, 0)\n	r.raftState.setCurrentTerm(t)\n	if t%2 == 0 {\n		return\n	}\n	// Persist to disk\n	if err := r.stable.SetUint64(keyCurrentTerm, t); err != nil {\n		panic(fmt.Errorf(\"failed to save current term: %v\", err))\n	}",
    "even terms are not persisted: the term goes backwards across a restart"),
 "c02-lastapplied-not-set-after-install": ("C02", "raft.go", "	// Update the lastApplied so we don't replay old logs\n	r.setLastApplied(req.LastLogIndex)\n\n	// Update the last stable snapshot info\n	r.setLastSnapshot(req.LastLogIndex, req.LastLogTerm)", "	// Update the last stable snapshot info\n	r.setLastSnapshot(req.LastLogIndex, req.LastLogTerm)",
    "lastApplied not advanced after a snapshot install: entries the snapshot covers are applied again"),
}
os.makedirs('/verif/seeded', exist_ok=True)
for name,(prop,f,old,new,desc) in MUTS.items():
    path='/repo/'+f
    src=open(path).read()
    if src.count(old)!=1:
        print("SKIP",name,"anchor count",src.count(old)); continue
    open(path,'w').write(src.replace(old,new))
    d='/verif/seeded/self-'+name
    os.makedirs(d,exist_ok=True)
    diff=subprocess.run(['git','-C','/repo','diff'],capture_output=True,text=True).stdout
    b=subprocess.run(['go','build','./...'],cwd='/repo',capture_output=True,text=True)
    subprocess.run(['git','-C','/repo','checkout','--','.'])
    if b.returncode!=0:
        print("NOBUILD",name,b.stderr[:200]); continue
    open(d+'/patch.diff','w').write(diff)
    json.dump({"property":prop,"origin":"self-made mutant (DESIGN section 5)","summary":desc,"needs_to_manifest":"see summary","confirmed":"compiles; detection recorded in DESIGN 8.6"},open(d+'/meta.json','w'),indent=1)
    print("ok",name)
