#!/usr/bin/env python3
"""second-round prompt: same as agent_prompt.py but another worktree and a hint to avoid the first change's spot"""
import json, sys, subprocess
pid = sys.argv[1]
AVOID = {
 "C01": "replication.go sendLatestSnapshot (the Term field of InstallSnapshotRequest)",
 "C02": "raft.go setupLeaderState (commitment startIndex)",
 "C03": "raft.go setupLeaderState (commitment startIndex)",
 "C04": "raft.go appendEntries, the term comparison in the conflict-detection loop",
 "C05": "replication.go pipelineDecode (order of updateLastAppended and the Success check)",
 "C06": "raft.go requestVote (getLastLog vs getLastEntry)",
 "C07": "raft.go appendEntries, the configuration revert on truncation",
 "C08": "fsm.go applyBatch response cursor of the BatchingFSM path",
 "C09": "replication.go heartbeat (placement of notifyAll)",
 "C10": "snapshot.go takeSnapshot (order of the two requests)",
 "C11": "configuration.go configurations.Clone",
 "C12": "raft.go appendEntries, the setLastLog after storing entries",
 "C13": "raft.go checkLeaderLease (which configuration decides who counts)",
 "C14": "raft.go runCandidate, reset of candidateFromLeadershipTransfer",
 "C15": "file_snapshot.go writeMeta (flush/sync order)",
 "C16": "net_transport.go decodeResponse",
 "C17": "raft.go restoreUserSnapshot, the loop that answers in-flight futures",
 "C18": "raft.go setState (where setLeader(\"\", \"\") is called)",
 "C19": "log_cache.go LogCache.DeleteRange",
 "C20": "raft.go restoreUserSnapshot, position of the block that aborts in-flight requests",
}
base = subprocess.check_output([sys.executable, "/verif/lib/agent_prompt.py", pid], text=True)
base = base.replace(f"/tmp/wt/{pid}", f"/tmp/wt2/{pid}").replace(f"/tmp/wt-out/{pid}", f"/tmp/wt-out2/{pid}")
base += f"\n\nNOTE: another engineer has already produced a change for this property in {AVOID[pid]}. Yours must use a DIFFERENT function and a different mechanism, and should need a different kind of situation to manifest (think about which aspects of the property statement that first change does not touch).\n"
print(base)
