#!/usr/bin/env python3
"""Regenerates /verif/MANIFEST.json from lib/plans.py (checks) and lib/manifest_meta.py (texts)."""
import json, os, sys
ROOT = os.path.dirname(os.path.dirname(os.path.abspath(__file__)))
sys.path.insert(0, os.path.join(ROOT, "lib"))
from plans import PLANS
from manifest_meta import META, NOT_APPLICABLE, HOOK_COMMITS

props = [json.loads(l) for l in open(os.path.join(ROOT, "properties.jsonl"))]
checks = []
na = []
for p in props:
    pid = p["id"]
    if pid in PLANS and pid in META:
        m = META[pid]
        checks.append({
            "property_id": pid,
            "quick_cmd": "./check %s --tier quick" % pid,
            "thorough_cmd": "./check %s --tier thorough" % pid,
            "evidence_file": "/verif/evidence/%s.json" % pid,
            "replay_cmd_template": "./check %s --replay {path}" % pid,
            "engine": m["engine"],
            "level_claimed": {"category": PLANS[pid]["level"], "text": m["text"], "design_ref": m["design_ref"]},
            "level_note": m["note"],
            "technique": m["technique"],
        })
    else:
        na.append({"property_id": pid, "reason": NOT_APPLICABLE.get(pid, "check not built yet in this session; no claim is made")})
man = {
    "version": 1,
    "setup_cmd": "./check --build",
    "hooks": {
        "guard": "verif",
        "enable": "go build/test -tags verif (the harness module in /verif/harness replaces github.com/hashicorp/raft with /repo and is always built with -tags verif by ./check)",
        "baseline_off_cmd": "cd /repo && go test -mod=mod -vet=off -count=1 -timeout 25m ./...",
        "source_commits": HOOK_COMMITS,
        "add_only": True,
    },
    "engines": [
        {"name": "SIM", "path": "/verif/harness/sim + /verif/harness/oracle + /verif/harness/exec", "serves_properties": sorted(k for k, v in META.items() if "SIM" in v["engine"] and k in PLANS),
         "kind_free_text": "whole clusters of the real raft code inside a testing/synctest bubble (virtual time) on harness disks/transports with crash-by-epoch; one totally ordered event log per execution; offline oracles replay it"},
        {"name": "TABLE", "path": "/verif/harness/table", "serves_properties": sorted(k for k, v in META.items() if "TABLE" in v["engine"] and k in PLANS),
         "kind_free_text": "exhaustive/differential drivers of pure components against few-line references"},
        {"name": "HANDLER", "path": "/verif/harness/handler", "serves_properties": sorted(k for k, v in META.items() if "HANDLER" in v["engine"] and k in PLANS),
         "kind_free_text": "one real server driven RPC by RPC through its Transport consumer, with crash/error injection at every stable-store write"},
        {"name": "FSNAP", "path": "/verif/harness/fsnap", "serves_properties": sorted(k for k, v in META.items() if "FSNAP" in v["engine"] and k in PLANS),
         "kind_free_text": "FileSnapshotStore on a real file system: directory images at hook points, strace-observed fsync/rename, fresh-process reopen"},
        {"name": "NET", "path": "/verif/harness/nettrans", "serves_properties": sorted(k for k, v in META.items() if "NET" in v["engine"] and k in PLANS),
         "kind_free_text": "two NetworkTransports over TCP loopback / fault-injecting pipes with a recording consumer"},
    ],
    "checks": checks,
    "not_applicable": na,
    "notes": "Technique family: runtime monitoring. Every verdict is 'held on the executions observed'. Exit 2 + INCONCLUSIVE line when coverage minimums are not met. See DESIGN.md.",
}
json.dump(man, open(os.path.join(ROOT, "MANIFEST.json"), "w"), indent=1)
print("MANIFEST.json: %d checks, %d not_applicable" % (len(checks), len(na)))
