#!/usr/bin/env python3
import json, sys
pid = sys.argv[1]
p = next(json.loads(l) for l in open('/verif/properties.jsonl') if json.loads(l)['id'] == pid)
print(f"""You are helping to evaluate a verification effort for the Go library hashicorp/raft (Raft consensus). Your job is to play the adversary: introduce a realistic, subtle bug.

PROPERTY {pid}: {p['title']}
Statement: {p['statement']}
Must hold: {p['quantifier']['text']}

WORKING COPY: /tmp/wt/{pid} is your own scratch git worktree of the library (Go module github.com/hashicorp/raft, package raft at the top level). Work ONLY there and in /tmp/wt-out/{pid}. Do not read or touch /verif or /repo. The sandbox has no network; use `go` with `-mod=mod` (e.g. `cd /tmp/wt/{pid} && go test -mod=mod -vet=off -count=1 -run 'TestName' .`).

TASK: change the library's non-test source (.go files that are not _test.go; ignore verif_on.go / verif_off.go, which are inert observation hooks) so that the property above is BROKEN, while the code still compiles and the EXISTING test suite still passes. The change must be the kind of mistake a maintainer could plausibly make (a dropped condition, an off-by-one, a reordered pair of statements, a missing persist/reset, a wrong variable, two sites that each look fine alone), and it must need something specific to manifest - a particular interleaving, a crash or fault at a particular point, a multi-step sequence of operations, an unusual input or configuration - NOT something that ordinary use exposes at once (if ordinary use exposed it, the existing suite would catch it).

Then write a DEMONSTRATION: one new Go test file in package raft (name it demo_{pid.lower()}_test.go) that FAILS (or hangs into a bounded timeout that you turn into a failure) with your change and PASSES on the unmodified code. It may use the package's existing test helpers (MakeCluster, inmem transports, InmemStore, MockFSM, etc.) or drive internals directly, since it lives in package raft. Verify both directions yourself (use `git diff > /tmp/wt-out/'ID'/my.patch; git checkout -- .; ...; git apply /tmp/wt-out/'ID'/my.patch`; do NOT use `git stash`: the stash is shared between all worktrees of this repository and other agents work in sibling worktrees).

SUITE: run the full suite once at the end: `cd /tmp/wt/{pid} && go test -mod=mod -vet=off -count=1 -timeout 25m . 2>&1 | grep -E '^(--- FAIL|ok|FAIL|panic)'` (takes about 2.5 minutes; it is wall-clock based, so do not run other heavy things meanwhile). Known noise that does not count: TestFileSS_BadPerm always fails when run as root; TestRaft_FollowerRemovalNoElection, TestRaft_ProtocolVersion_Upgrade_1_2 and TestRaft_PreVoteMixedCluster are timing-flaky - rerun a failing one alone before concluding. While developing, run targeted tests only.

DELIVERABLES (all required):
  /tmp/wt-out/{pid}/patch.diff     - `git diff` of the non-test source change only (must apply with `git apply` to a clean checkout of the same commit)
  /tmp/wt-out/{pid}/demo_test.go   - the demonstration test file
  /tmp/wt-out/{pid}/meta.json      - {{"property": "{pid}", "summary": "...what you changed and why it breaks the property...", "needs_to_manifest": "...the specific schedule / fault / sequence / input...", "files_changed": [...], "demo_run": "...exact commands and observed results with and without the change...", "suite_result": "...what the full suite printed..."}}
Leave the worktree with your change applied. Report briefly what you did. If your first idea turns out to be caught by the existing suite, pick a different one; do not give up without a patch that meets all conditions.""")
