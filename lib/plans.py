"""Per-property execution plans: which engine/test, which scenario families,
how many executions per tier, what counts as a non-trivial execution and the
coverage minimums below which a run is INCONCLUSIVE."""


def sim(family, count, race=False, wall=240):
    return {"pkg": "exec", "test": "TestExec", "family": family, "count": count, "race": race, "wall": wall, "engine": "SIM"}


SIM_RULE = ("one execution = one seeded scenario (cluster parameters + nemesis script, pure function of (family, seed, index)) run on the real raft code "
            "inside a synctest bubble, one process each; an execution is counted as distinct and non-trivial when its (family, index, number of leader "
            "elections observed, set of crash/error points actually taken) tuple is new AND the property's trigger events were observed in it: %s")

PLANS = {}


def plan(pid, level, quick, thorough, trigger, trigger_text, minimums=None, rule=None):
    PLANS[pid] = {"level": level, "quick": quick, "thorough": thorough, "trigger": trigger,
                  "rule": rule or (SIM_RULE % trigger_text), "minimums": minimums or {}}


plan("C12", "exploration",
     [sim("random", 40), sim("churn", 20)],
     [sim("random", 800), sim("churn", 400), sim("random", 100, race=True)],
     {"tail-one-leader": 1}, "the quiet tail ended with the bounded-progress readings taken",
     {"quick": {"tail-member-checked": 30}, "thorough": {"tail-member-checked": 600}})

for _pid, _trig, _txt in [
    ("C01", {"leader-elected": 2}, "at least two leader elections"),
    ("C02", {"fsm-apply": 20}, "at least 20 FSM applies"),
    ("C03", {"leader-completeness-checked": 1}, "a leader elected after entries were known committed"),
    ("C04", {"ae-success-with-entries": 10}, "at least 10 successful AppendEntries with entries"),
    ("C05", {"leader-commit": 5}, "at least 5 leader commit advances"),
    ("C06", {"vote-granted": 2}, "at least two granted votes"),
    ("C07", {"cfg-entry-stored": 1}, "a configuration entry stored"),
    ("C08", {"call-ok:apply": 10}, "at least 10 acknowledged Apply calls"),
    ("C09", {"verify-ok": 1}, "a VerifyLeader that returned nil"),
    ("C10", {"restart-checked": 2}, "at least two (re)starts checked against the durable image"),
    ("C11", {"op:snap.close": 1}, "a snapshot persisted"),
    ("C18", {"notify": 2}, "leadership notifications delivered"),
]:
    plan(_pid, "exploration", [sim("random", 40), sim("churn", 20)], [sim("random", 800), sim("churn", 400)], _trig, _txt)

plan("C17", "exploration",
     [sim("shutdown", 40), sim("random", 20)],
     [sim("shutdown", 800), sim("random", 300), sim("churn", 300)],
     {"call:apply": 10}, "client futures were observed (and, for the shutdown family, calls raced with and followed Shutdown)",
     {"quick": {"after-shutdown-call": 100}, "thorough": {"after-shutdown-call": 2000}})

ASSUMPTIONS = {
    "*": [
        "verdicts are 'held on the executions observed': schedules are sampled (Go scheduler nondeterminism + seeded virtual delays + nemesis), not enumerated",
        "crash model: one store call is atomic and durable on return; in-memory harness disks stand in for real stores",
        "timing oracles are evaluated in synctest virtual time; the wall-clock watchdog only yields 'inconclusive'",
        "only protocol version 3 / snapshot version 1 are exercised",
    ],
}
