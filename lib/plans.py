"""Per-property execution plans: which engine/test, which scenario families,
how many executions per tier, what counts as a non-trivial execution and the
coverage minimums below which a run is INCONCLUSIVE."""


def sim(family, count, race=False, wall=240):
    if race:
        wall = max(wall, 600)  # the oracle pass over a large event log is slow under the race detector
    return {"pkg": "exec", "test": "TestExec", "family": family, "count": count, "race": race, "wall": wall, "engine": "SIM"}


SIM_RULE = ("one execution = one seeded scenario (cluster parameters + nemesis script, pure function of (family, seed, index)) run on the real raft code "
            "inside a synctest bubble, one process each; an execution is counted as distinct and non-trivial when its (family, index, number of leader "
            "elections observed, set of crash/error points actually taken) tuple is new AND the property's trigger events were observed in it: %s")

PLANS = {}


def plan(pid, level, quick, thorough, trigger, trigger_text, minimums=None, rule=None):
    PLANS[pid] = {"level": level, "quick": quick, "thorough": thorough, "trigger": trigger,
                  "rule": rule or (SIM_RULE % trigger_text), "minimums": minimums or {}}



def tbl(pkg, test, shards, engine, race=False, wall=900):
    return {"pkg": pkg, "test": test, "count": shards, "shards": True, "scalable": False, "race": race, "wall": wall, "engine": engine, "family": test}


# ---- SIM-only properties ----
plan("C01", "exploration",
     [sim("elections", 25), sim("random", 10), sim("churn", 8), sim("notify", 10), sim("xfervote", 8)],
     [sim("elections", 230), sim("random", 130), sim("churn", 100), sim("fig8", 70), sim("notify", 100), sim("xfervote", 70), sim("staletn", 50), sim("elections", 60, race=True)],
     {"leader-elected": 2}, "at least two leader elections",
     {"quick": {"leader-elected": 200}, "thorough": {"leader-elected": 1250}})
plan("C02", "exploration",
     [sim("fig8", 18), sim("fig8x", 8), sim("random", 14), sim("lagging", 14), sim("restorefail", 8)],
     [sim("fig8", 170), sim("fig8x", 70), sim("random", 170), sim("lagging", 100), sim("crashpoints", 70), sim("restorefail", 60), sim("snapfallback", 40), sim("random", 60, race=True)],
     {"fsm-apply": 20}, "at least 20 entries handed to FSMs",
     {"quick": {"fsm-restore": 20, "fsm-apply": 5000}, "thorough": {"fsm-restore": 125}})
plan("C03", "exploration",
     [sim("fig8", 14), sim("fig8x", 10), sim("storefail", 10), sim("random", 8), sim("elections", 6), sim("cfgquorum", 6), sim("dupae", 6), sim("snapvote", 6)],
     [sim("fig8", 270), sim("fig8x", 100), sim("storefail", 100), sim("random", 130), sim("elections", 100), sim("crashpoints", 70), sim("cfgquorum", 60), sim("cfggate", 40), sim("dupae", 60), sim("snapvote", 60)],
     {"leader-completeness-checked": 1}, "a leader was elected after entries were known to be committed",
     {"quick": {"leader-completeness-checked": 100}, "thorough": {"leader-completeness-checked": 750}})
plan("C08", "exploration",
     [sim("clients", 36), sim("random", 14), sim("cfgquorum", 6), sim("fig8x", 4)],
     [sim("clients", 300), sim("random", 130), sim("fig8", 70), sim("cfgquorum", 40), sim("fig8x", 40), sim("storefail", 60), sim("deposeae", 40), sim("clients", 60, race=True)],
     {"call-ok:apply": 10}, "at least 10 acknowledged Apply calls",
     {"quick": {"call-ok:apply": 2000, "definite-failure": 50, "porcupine-ok": 30}, "thorough": {"porcupine-ok": 200}})
plan("C09", "exploration",
     [sim("verify", 40), sim("lease", 15), sim("churn", 20), sim("promote", 8)],
     [sim("verify", 400), sim("lease", 130), sim("random", 130), sim("churn", 170), sim("promote", 60)],
     {"verify-ok": 1}, "a VerifyLeader call returned nil",
     {"quick": {"verify-ok": 100, "lease-cut:voters-cut-nonvoters-reachable": 20}, "thorough": {"verify-ok": 750}})
plan("C10", "fault_enumeration",
     [sim("crashpoints", 34), sim("snapcfg", 12), sim("random", 8), sim("snapfallback", 8)],
     [sim("crashpoints", 330), sim("snapcfg", 100), sim("random", 130), sim("churn", 70), sim("restore", 50), sim("snapfallback", 60)],
     {"restart-checked": 4}, "at least one restart from a crash image was compared with what the new incarnation reports",
     {"quick": {"restart-checked": 300, "restart-with-snapshot": 30}, "thorough": {"restart-checked": 2000}})
plan("C12", "exploration",
     [sim("lagging", 20), sim("random", 14), sim("churn", 12), sim("longstale", 6), sim("storefail", 6), sim("monofail", 6), sim("restorefail", 4), sim("restoreedge", 4)],
     [sim("lagging", 170), sim("random", 170), sim("churn", 130), sim("crashpoints", 70), sim("longstale", 60), sim("storefail", 80), sim("restore", 60), sim("monofail", 40), sim("snaptrunc", 30), sim("restorefail", 30), sim("restoreedge", 30), sim("random", 60, race=True)],
     {"tail-one-leader": 1}, "the quiet tail ended with the bounded-progress readings taken",
     {"quick": {"tail-member-checked": 60}, "thorough": {"tail-member-checked": 500}})
plan("C13", "exploration",
     [sim("lease", 40), sim("elections", 8), sim("quiet", 8, wall=600)],
     [sim("lease", 300), sim("quiet", 50, wall=900), sim("verify", 70), sim("elections", 100), sim("notify", 70)],
     {"lease-stepdown-measured": 1}, "a leader that lost its majority was timed until step-down (or the run was a long fault-free one)",
     {"quick": {"lease-stepdown-measured": 60, "quiet-run": 4}, "thorough": {"lease-stepdown-measured": 375, "quiet-run": 15}})
plan("C14", "exploration",
     [sim("prevote", 50)],
     [sim("prevote", 400)],
     {"pv-isolation-completed": 1}, "a pre-vote enabled server was isolated and reconnected",
     {"quick": {"pv-isolation-completed": 40, "pv-reconnect-checked": 15}, "thorough": {"pv-isolation-completed": 250}})
plan("C17", "exploration",
     [sim("shutdown", 26), sim("random", 8), sim("restore", 12), sim("promote", 8), sim("deposeae", 8)],
     [sim("shutdown", 270), sim("random", 100), sim("churn", 100), sim("clients", 70), sim("restore", 100), sim("promote", 80), sim("deposeae", 60)],
     {"call:apply": 10}, "client futures were observed (and, for the shutdown family, calls raced with and followed Shutdown)",
     {"quick": {"after-shutdown-call": 100}, "thorough": {"after-shutdown-call": 500}})
plan("C18", "exploration",
     [sim("notify", 28), sim("random", 8), sim("elections", 8), sim("notifyblock", 8), sim("staletn", 8), sim("snapleader", 8)],
     [sim("notify", 330), sim("random", 100), sim("elections", 130), sim("storefail", 50), sim("notifyblock", 80), sim("staletn", 80), sim("snapleader", 60)],
     {"notify": 2}, "leadership notifications were delivered",
     {"quick": {"notify": 150, "leader-sample-checked": 100}, "thorough": {"notify": 1000}})
plan("C20", "exploration",
     [sim("restore", 44), sim("restoreedge", 8)],
     [sim("restore", 400), sim("restoreedge", 60)],
     {"userrestore-ok": 1}, "a user Restore returned nil",
     {"quick": {"userrestore-ok": 20}, "thorough": {"userrestore-ok": 125}})

# ---- mixed engines ----
plan("C04", "exploration",
     [tbl("handler", "TestC04", 8, "HANDLER"), sim("fig8", 16), sim("random", 10), sim("storefail", 8), sim("snapterm", 6), sim("monofail", 8), sim("dupae", 4)],
     [tbl("handler", "TestC04", 16, "HANDLER", wall=3000), sim("fig8", 170), sim("random", 170), sim("elections", 70), sim("storefail", 70), sim("snapterm", 50), sim("lagging", 70), sim("monofail", 60), sim("dupae", 40)],
     None, None,
     {"quick": {"ae-success-with-entries": 1000, "truncation": 20}, "thorough": {"truncation": 250}},
     rule="HANDLER: every (follower log, snapshot boundary, current term) x (request term, previous-entry position, batch, conflict position, leader commit) within the bounds "
          "(log <= 5 entries over 3 terms) is enumerated; thorough runs all of them, quick a seeded sample; a case is non-trivial when entries were sent and accepted. "
          "SIM: " + (SIM_RULE % "at least 10 successful AppendEntries with entries were checked against the follower's reconstructed disk"))
plan("C05", "exploration",
     [tbl("table", "TestC05", 8, "TABLE"), sim("churn", 14), sim("random", 8), sim("fig8x", 6), sim("storefail", 8), sim("cfgtrunc", 12)],
     [tbl("table", "TestC05", 16, "TABLE", wall=3000), sim("churn", 170), sim("random", 170), sim("fig8", 100), sim("fig8x", 70), sim("storefail", 100), sim("cfgtrunc", 80), sim("promote", 40)],
     None, None,
     {"quick": {"leader-commit": 1000, "majority-checked-at-leader-commit": 500}, "thorough": {"leader-commit": 7500}},
     rule="TABLE: every configuration over 3 servers (voter / non-voter / staging / absent, >= 1 voter) x startIndex 1..3 x every sequence of <= 3 (quick) / <= 4 (thorough) "
          "match / setConfiguration calls, plus seeded random sequences (<= 30 calls, 7 servers), each compared call by call with a brute-force reference; distinct = (initial configuration, startIndex) classes and sampled random cases. "
          "SIM: " + (SIM_RULE % "at least 5 leader commit advances were checked against the voters' reconstructed disks"))
plan("C06", "fault_enumeration",
     [tbl("handler", "TestC06", 8, "HANDLER"), sim("elections", 20), sim("crashpoints", 10), sim("xfervote", 6), sim("dupae", 4), sim("snapvote", 4)],
     [tbl("handler", "TestC06", 16, "HANDLER", wall=3000), sim("elections", 200), sim("crashpoints", 100), sim("random", 100), sim("xfervote", 50), sim("dupae", 40), sim("snapvote", 40)],
     None, None,
     {"quick": {"vote-granted": 300, "fault-before": 500, "own-candidacy-won": 100}, "thorough": {"fault-before": 10000, "own-candidacy-won": 2000}},
     rule="HANDLER: persisted state (term, vote record incl. term-without-candidate, log tail, configuration) x sequences of 2-3 RequestVote / RequestPreVote / heartbeat / TimeoutNow messages (TimeoutNow makes the server campaign itself; two fake peers hold its requests and grant them at the end, so a win after a grant to a competitor is seen) x "
          "{no fault, crash before, crash after, error} at EVERY stable-store write the sequence performs (measured by a dry run), restart and continue; quick samples base sequences, thorough 30000 of them; "
          "non-trivial = a vote was granted. SIM: " + (SIM_RULE % "votes were granted in live elections with crashes/errors armed on the vote and term writes"))
plan("C07", "exploration",
     [tbl("table", "TestC07", 4, "TABLE"), sim("churn", 22), sim("cfgtrunc", 10), sim("cfggate", 8), sim("cfgquorum", 4), sim("elections", 6), sim("staletn", 8)],
     [tbl("table", "TestC07", 16, "TABLE"), sim("churn", 300), sim("cfgtrunc", 100), sim("cfggate", 80), sim("cfgquorum", 40), sim("elections", 100), sim("notify", 70), sim("staletn", 60), sim("promote", 40)],
     None, None,
     {"quick": {"config-append": 40, "cfg-entry-stored": 100}, "thorough": {"config-append": 250}},
     rule="TABLE: every configuration over 3 (quick) / 4 (thorough) server ids x every command x every target (incl. a new id) x address in {own, another server's, new, empty} x prevIndex in {0, current, stale-, stale+}, "
          "compared with the stated rules; non-trivial = the voter set changed by one. SIM: " + (SIM_RULE % "a configuration entry was appended / stored"))
plan("C11", "fault_enumeration",
     [tbl("table", "TestC11", 1, "TABLE"), sim("lagging", 18), sim("crashpoints", 16), sim("snapcfg", 8), sim("random", 8), sim("snapterm", 6), sim("snaptrunc", 8), sim("monofail", 4)],
     [tbl("table", "TestC11", 1, "TABLE"), sim("lagging", 170), sim("crashpoints", 170), sim("snapcfg", 70), sim("random", 100), sim("restore", 50), sim("snapterm", 50), sim("snaptrunc", 60), sim("monofail", 40)],
     None, None,
     {"quick": {"op:snap.close": 100, "compaction": 50, "snapshot-fidelity-checked": 100}, "thorough": {"op:snap.close": 750}},
     rule="TABLE: compactLogsWithTrailing for every (first, last, snapshot index, last log index, TrailingLogs) with values 0..8 (exhaustive); "
          "SIM: " + (SIM_RULE % "a snapshot was persisted; the disk invariant is evaluated after every store operation (each one is a potential crash image)"))

# ---- pure TABLE / FSNAP / NET ----
plan("C15", "fault_enumeration",
     [tbl("fsnap", "TestC15", 4, "FSNAP")],
     [tbl("fsnap", "TestC15", 16, "FSNAP", wall=3000)],
     None, None, {"quick": {"images-checked": 1000, "fsyncs-observed": 100, "corruptions": 40}, "thorough": {"images-checked": 30000}},
     rule="seeded snapshot histories (2-6 snapshots, arbitrary (term,index) order incl. equal pairs, 0 B - 2 MiB, close / cancel / abandon, retain 1-3) on a real directory; "
          "one crash image per hook point between the file-system steps, plus variants in which data that strace did not see fsynced is truncated (empty / half), un-synced renames and removals are reverted; "
          "each image is opened with a fresh FileSnapshotStore; distinct = (history, image, hook point)")
plan("C16", "exploration",
     [tbl("nettrans", "TestC16", 4, "NET", race=True)],
     [tbl("nettrans", "TestC16", 16, "NET", race=True, wall=3000)],
     None, None, {"quick": {"messages": 1500, "pipelined": 300, "fault-placements": 60}, "thorough": {"messages": 80000}},
     rule="generated messages of all five RPC kinds with every field populated from the seed (nil vs empty slices, 0-64 entries of every log type, up to 1 MiB data, extensions, timestamps with zone / monotonic reading, "
          "header variants, snapshot bodies 0 B - 3 MiB) over TCP loopback and fault-injecting in-memory pipes, MaxPool {0,1,3}, MaxRPCsInFlight {1,2,3,10,130}, both time formats, 1-8 concurrent senders; distinct = request tags whose request and response were both compared")
plan("C19", "exploration",
     [tbl("table", "TestC19", 8, "TABLE")],
     [tbl("table", "TestC19", 16, "TABLE", wall=3000)],
     None, None, {"quick": {"exhaustive-sequences-x-capacity-x-backend": 100000}, "thorough": {"exhaustive-sequences-x-capacity-x-backend": 5000000}},
     rule="every sequence of <= 3 (quick) / <= 4 (thorough) operations over {StoreLogs of 1-3 entries (contiguous, gapped, overwriting), DeleteRange(a,b), GetLog, FirstIndex, LastIndex} on indexes 1..6, cache capacities 1-3, "
          "8 backends (plain, InmemStore, 1st / 2nd StoreLogs or DeleteRange failing without effect, 1st / 2nd DeleteRange failing after removing half of the range), plus seeded random sequences of 20-200 operations over indexes 1..40 and capacities 1-16; "
          "LogCache(store) and an identical store alone must return the same values; distinct = sequences containing a store, and random cases containing reads")

ASSUMPTIONS = {
    "*": [
        "verdicts are 'held on the executions observed': schedules are sampled (Go scheduler nondeterminism + seeded virtual delays + nemesis), not enumerated",
        "crash model: one store call is atomic and durable on return; in-memory harness disks stand in for real stores",
        "timing oracles are evaluated in synctest virtual time; the wall-clock watchdog only yields 'inconclusive'",
        "protocol version 3 (and 2 in a fraction of the SIM executions), snapshot version 1",
    ],
}
