#!/usr/bin/env python3
"""fourth-round prompt: like round 3, with the third spot excluded as well and a general steer towards
non-default options, error paths and goroutine interactions"""
import sys, subprocess, json, re
pid = sys.argv[1]
base = subprocess.check_output([sys.executable, "/verif/lib/agent_prompt3.py", pid], text=True)
base = base.replace(f"/tmp/wt3/{pid}", f"/tmp/wt4/{pid}").replace(f"/tmp/wt-out3/{pid}", f"/tmp/wt-out4/{pid}")
import os
mp = f"/verif/seeded/{pid}c/meta.json"
third = json.load(open(mp if os.path.exists(mp) else f"/tmp/wt-out3/{pid}/meta.json"))
files = ", ".join(third.get("files_changed", []))
summ = re.split(r"(?<=[.;])\s", third["summary"].strip())[0][:300]
base += (f"\nA third engineer has since changed {files}: \"{summ}\" - stay away from that function too. "
         "Ideas that have worked less often so far and are welcome: behaviour that depends on a non-default Config option "
         "(BatchApplyCh, ShutdownOnRemove, NoSnapshotRestoreOnStart, PreVoteDisabled, small MaxAppendEntries / TrailingLogs / SnapshotThreshold, ProtocolVersion 2), "
         "the error paths taken when a LogStore / StableStore / SnapshotStore call fails, what happens around Shutdown or a restart, "
         "and state shared between the main loop, the replication goroutines, the FSM goroutine and the snapshot goroutine.\n")
print(base)
