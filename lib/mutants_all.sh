#!/bin/bash
# usage: lib/mutants_all.sh [names...]   runs every seeded change (default: all of seeded/*) against the quick check of
# its own property and appends one line per change to seeded/RESULTS.txt (rewritten when run without arguments)
cd /verif
names=${@:-$(ls seeded | grep -v RESULTS)}
[ $# -eq 0 ] && : > seeded/RESULTS.txt
for n in $names; do
  [ -f seeded/$n/patch.diff ] || continue
  lib/mutant_wt.sh $n 2>&1 | grep "^MUTANT" | tee -a seeded/RESULTS.txt | cut -c1-300
done
