#!/usr/bin/env python3
"""Rewrites the /repo commit ids quoted in known_findings.txt, DESIGN.md and manifest_meta.py after the
fix commits were rebased: every 7-hex id that is not a current commit but whose role is known is replaced.
The mapping goes through a stable key per fix (a word of the commit subject)."""
import re, subprocess, sys
KEYS = {  # key in the subject -> label
    "installSnapshot must not roll": "S3",
    "persist the vote": "S2",
    "VerifyLeader counts": "S1",
    "RestoreCommittedLogs": "S4",
    "queued around Shutdown": "S6",
    "pipelined AppendEntries": "S11",
    "keeps a monotonic log": "S13",
    "commits only up to the last entry": "S15",
    "acts only under the term it was elected in": "S16",
    "made a follower while waiting": "S14",
    "adopts that term": "S17",
    "follows a truncated suffix": "S18",
    "counts TrailingLogs from the entries": "S19",
    "keeps the configurations of the log entries it retains": "S20",
    "verif: observation hooks": "HOOKS",
}
log = subprocess.check_output(["git", "-C", "/repo", "log", "--format=%h %s", "-n", "30"], text=True).splitlines()
cur = {}
for l in log:
    h, s = l.split(" ", 1)
    for k, lab in KEYS.items():
        if k in s:
            cur[lab] = h
import json, os
state = "/verif/lib/.fix_hashes.json"
old = json.load(open(state)) if os.path.exists(state) else {}
# old: label -> list of every hash that label ever had
for lab, h in cur.items():
    old.setdefault(lab, [])
    if h not in old[lab]:
        old[lab].append(h)
for extra in sys.argv[1:]:  # LABEL=hash : register a historic hash
    lab, h = extra.split("=")
    old.setdefault(lab, [])
    if h not in old[lab]:
        old[lab].insert(0, h)
json.dump(old, open(state, "w"), indent=1)
for f in ["/verif/known_findings.txt", "/verif/DESIGN.md", "/verif/lib/manifest_meta.py"]:
    s = open(f).read()
    t = s
    for lab, hs in old.items():
        for h in hs:
            if h != cur.get(lab):
                t = t.replace(h, cur[lab])
    if t != s:
        open(f, "w").write(t)
        print("updated", f)
print(cur)
