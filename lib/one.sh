#!/bin/bash
# usage: lib/one.sh <family> <seed> <idx> [race]  -> runs one execution, keeps the event log under ~/.cache/rv/one
export GOFLAGS=-mod=mod GOPROXY=off GOSUMDB=off GOTOOLCHAIN=local
set -e
D=$HOME/.cache/rv/one; mkdir -p $D
cd /verif/harness
RACE=""; [ "$4" = race ] && RACE="-race"
go1.26.8 test -c -tags verif $RACE -o $D/exec.test ./exec/
cd $D
RV_KEEP_EVENTS=1 RV_FAMILY=$1 RV_SEED=$2 RV_IDX=$3 RV_OUT=$D/$1-$2-$3 timeout -s QUIT ${WALL:-300} ./exec.test -test.run '^TestExec$' -test.timeout 0 > $D/$1-$2-$3.log 2>&1 || true
grep -E "^exec|^  C|^panic|fatal error" $D/$1-$2-$3.log | head -${LINES_MAX:-30}
