// Package fsnap is the FSNAP engine (C15): FileSnapshotStore on a real file
// system. A child process runs a seeded history of snapshots; at every hook
// point between the file-system steps it copies the directory tree (a crash
// image) and records the API-level facts. The child runs under strace, so
// which files were fsynced and which renames / removals were followed by an
// fsync of the parent directory is observed, not assumed; from that the
// parent materialises the "un-synced data lost" variants of each image. Every
// image is opened with a fresh FileSnapshotStore and checked.
package fsnap

import (
	"bufio"
	"bytes"
	"crypto/sha256"
	"encoding/hex"
	"encoding/json"
	"fmt"
	"io"
	"math/rand"
	"os"
	"os/exec"
	"path/filepath"
	"regexp"
	"sort"
	"strconv"
	"strings"
	"syscall"
	"testing"

	"github.com/hashicorp/go-hclog"
	"github.com/hashicorp/raft"

	"rv/table"
)

// ---------- shared between child and parent ----------

type snapFact struct {
	ID     string `json:"id"`
	Index  uint64 `json:"index"`
	Term   uint64 `json:"term"`
	CfgIdx uint64 `json:"cfg_idx"`
	Size   int    `json:"size"`
	Hash   string `json:"hash"`
	State  string `json:"state"` // open / closed / cancelled / abandoned / close-failed
	Order  int    `json:"order"` // creation order
}

type imageFact struct {
	N      int        `json:"n"`
	Point  string     `json:"point"`
	Path   string     `json:"path"`
	Retain int        `json:"retain"`
	Snaps  []snapFact `json:"snaps"` // state of every snapshot of the history at this point
}

type history struct {
	Retain int      `json:"retain"`
	Ops    []histOp `json:"ops"`
}

type histOp struct {
	Index, Term uint64
	Size        int
	Chunks      int
	End         string // close / cancel / abandon
}

func genHistory(rng *rand.Rand) history {
	h := history{Retain: 1 + rng.Intn(3)}
	n := 2 + rng.Intn(5)
	// terms start next to a change in the number of digits: directory names sort as text
	var idx uint64 = 10 + uint64(rng.Intn(3))*45
	term := []uint64{1, 1, 8, 9, 98, 99}[rng.Intn(6)]
	for i := 0; i < n; i++ {
		switch rng.Intn(7) {
		case 0: // equal pair
		case 1: // older than the previous one
			if idx > 5 {
				idx -= uint64(1 + rng.Intn(5))
			}
		case 2:
			term++
			idx += uint64(rng.Intn(10))
		case 3: // a later term whose snapshot ends at a lower index
			term++
			if idx > 8 {
				idx -= uint64(1 + rng.Intn(8))
			}
		case 4: // an earlier term with a higher index (arbitrary order is allowed)
			if term > 1 {
				term--
			}
			idx += uint64(rng.Intn(10))
		default:
			idx += uint64(1 + rng.Intn(20))
		}
		size := []int{0, 1, 100, 4096, 70000, 1 << 20}[rng.Intn(6)]
		if rng.Intn(12) == 0 {
			size = 2 << 20
		}
		end := "close"
		switch rng.Intn(6) {
		case 0:
			end = "cancel"
		case 1:
			end = "abandon"
		}
		h.Ops = append(h.Ops, histOp{Index: idx, Term: term, Size: size, Chunks: 1 + rng.Intn(5), End: end})
	}
	return h
}

func sha(b []byte) string { s := sha256.Sum256(b); return hex.EncodeToString(s[:8]) }

func payload(seed int64, i, size int) []byte {
	b := make([]byte, size)
	rand.New(rand.NewSource(seed*131 + int64(i))).Read(b)
	return b
}

func copyTree(src, dst string) error {
	return filepath.Walk(src, func(p string, info os.FileInfo, err error) error {
		if err != nil {
			return nil // a file vanished while walking: the image simply lacks it
		}
		rel, _ := filepath.Rel(src, p)
		t := filepath.Join(dst, rel)
		if info.IsDir() {
			return os.MkdirAll(t, 0o755)
		}
		b, err := os.ReadFile(p)
		if err != nil {
			return nil
		}
		return os.WriteFile(t, b, 0o644)
	})
}

// ---------- child ----------

func TestFSnapChild(t *testing.T) {
	work := os.Getenv("FSNAP_WORK")
	if work == "" {
		t.Skip("child only")
	}
	seed, _ := strconv.ParseInt(os.Getenv("FSNAP_SEED"), 10, 64)
	var h history
	b, _ := os.ReadFile(filepath.Join(work, "history.json"))
	json.Unmarshal(b, &h)
	base := filepath.Join(work, "store")
	os.MkdirAll(base, 0o755)
	store, err := raft.NewFileSnapshotStoreWithLogger(base, h.Retain, hclog.New(&hclog.LoggerOptions{Output: io.Discard, Level: hclog.Off}))
	if err != nil {
		t.Fatal(err)
	}
	var facts []snapFact
	var images []imageFact
	n := 0
	snapDir := filepath.Join(base, "snapshots")
	raft.VerifFSHook = func(point, path string) {
		n++
		// marker for the strace log
		syscall.Faccessat(-100, fmt.Sprintf("/rv-marker/%d", n), 0, 0)
		dst := filepath.Join(work, "images", strconv.Itoa(n))
		copyTree(snapDir, dst)
		images = append(images, imageFact{N: n, Point: point, Path: path, Retain: h.Retain, Snaps: append([]snapFact(nil), facts...)})
	}
	_, trans := raft.NewInmemTransport("a")
	cfg := raft.Configuration{Servers: []raft.Server{{ID: "a", Address: "a"}, {ID: "b", Address: "b", Suffrage: raft.Nonvoter}}}
	for i, op := range h.Ops {
		sink, err := store.Create(1, op.Index, op.Term, cfg, op.Index/2, trans)
		if err != nil {
			continue
		}
		data := payload(seed, i, op.Size)
		facts = append(facts, snapFact{ID: sink.ID(), Index: op.Index, Term: op.Term, CfgIdx: op.Index / 2, Size: op.Size, Hash: sha(data), State: "open", Order: i})
		cur := len(facts) - 1
		chunk := op.Size/op.Chunks + 1
		for off := 0; off < op.Size; off += chunk {
			end := off + chunk
			if end > op.Size {
				end = op.Size
			}
			sink.Write(data[off:end])
		}
		switch op.End {
		case "close":
			// the fact changes to "closed" only when Close has returned nil; images
			// taken inside Close still see it as open
			if err := sink.Close(); err == nil {
				facts[cur].State = "closed"
			} else {
				facts[cur].State = "close-failed"
			}
		case "cancel":
			facts[cur].State = "cancelling"
			sink.Cancel()
			facts[cur].State = "cancelled"
		case "abandon":
			facts[cur].State = "abandoned"
		}
		// a final image after the operation completed
		raft.VerifFSHook("op.done", "")
	}
	raft.VerifFSHook = nil
	out, _ := json.Marshal(images)
	os.WriteFile(filepath.Join(work, "facts.json"), out, 0o644)
}

// ---------- parent: strace log ----------

type sysEv struct {
	kind   string // write / fsync / rename / unlink / rmdir / create / mkdir / marker
	path   string
	path2  string
	marker int
	n      int // bytes written
}

var (
	reFd     = regexp.MustCompile(`^\d+\s+(write|fsync|fdatasync)\((\d+)<([^>]*)>`)
	reRename = regexp.MustCompile(`^\d+\s+rename(?:at2?)?\((?:AT_FDCWD(?:<[^>]*>)?, )?"([^"]*)", (?:AT_FDCWD(?:<[^>]*>)?, )?"([^"]*)"`)
	reUnlink = regexp.MustCompile(`^\d+\s+unlinkat\((?:AT_FDCWD(?:<[^>]*>)?|\d+<([^>]*)>), "([^"]*)", (\w+)`)
	reOpen   = regexp.MustCompile(`^\d+\s+openat\(AT_FDCWD(?:<[^>]*>)?, "([^"]*)", ([A-Z_|]+)`)
	reMkdir  = regexp.MustCompile(`^\d+\s+mkdir(?:at)?\((?:AT_FDCWD(?:<[^>]*>)?, )?"([^"]*)"`)
	reWrSize = regexp.MustCompile(`\) = (\d+)`)
	reMark   = regexp.MustCompile(`faccessat2?\(AT_FDCWD(?:<[^>]*>)?, "/rv-marker/(\d+)"`)
)

func parseStrace(path string) ([]sysEv, error) {
	f, err := os.Open(path)
	if err != nil {
		return nil, err
	}
	defer f.Close()
	var out []sysEv
	sc := bufio.NewScanner(f)
	sc.Buffer(make([]byte, 1<<20), 1<<24)
	for sc.Scan() {
		line := sc.Text()
		// a call interrupted by another thread's output is printed as
		// "... <unfinished ...>" and completed later; the call itself is what counts
		unfinished := strings.Contains(line, "<unfinished ...>")
		if (!strings.Contains(line, " = ") && !unfinished) || strings.Contains(line, "= -1 E") && !strings.Contains(line, "rv-marker") {
			continue
		}
		if m := reMark.FindStringSubmatch(line); m != nil {
			n, _ := strconv.Atoi(m[1])
			out = append(out, sysEv{kind: "marker", marker: n})
		} else if m := reFd.FindStringSubmatch(line); m != nil {
			k := m[1]
			if k == "fdatasync" {
				k = "fsync"
			}
			ev := sysEv{kind: k, path: m[3]}
			if k == "write" {
				if w := reWrSize.FindStringSubmatch(line); w != nil {
					ev.n, _ = strconv.Atoi(w[1])
				}
			}
			out = append(out, ev)
		} else if m := reRename.FindStringSubmatch(line); m != nil {
			out = append(out, sysEv{kind: "rename", path: m[1], path2: m[2]})
		} else if m := reUnlink.FindStringSubmatch(line); m != nil {
			k := "unlink"
			if strings.Contains(m[3], "REMOVEDIR") {
				k = "rmdir"
			}
			p := m[2]
			if m[1] != "" && !strings.HasPrefix(p, "/") {
				p = filepath.Join(m[1], p)
			}
			out = append(out, sysEv{kind: k, path: p})
		} else if m := reOpen.FindStringSubmatch(line); m != nil && strings.Contains(m[2], "O_CREAT") {
			out = append(out, sysEv{kind: "create", path: m[1]})
		} else if m := reMkdir.FindStringSubmatch(line); m != nil {
			out = append(out, sysEv{kind: "mkdir", path: m[1]})
		}
	}
	return out, sc.Err()
}

// durability state derived from the syscalls up to a marker
type durState struct {
	dirty      map[string]bool   // file path -> written since last fsync
	unsyncedMv map[string]string // new path -> old path, parent not fsynced since
	unsyncedRm map[string]bool   // removed path whose parent was not fsynced since
}

func replay(evs []sysEv, snapDir string, upto int) durState {
	st := durState{dirty: map[string]bool{}, unsyncedMv: map[string]string{}, unsyncedRm: map[string]bool{}}
	for _, e := range evs {
		if e.kind == "marker" {
			if e.marker == upto {
				return st
			}
			continue
		}
		if !strings.HasPrefix(e.path, snapDir) && !strings.HasPrefix(e.path2, snapDir) {
			continue
		}
		switch e.kind {
		case "write", "create":
			st.dirty[e.path] = true
		case "fsync":
			fi, err := os.Stat(e.path)
			_ = fi
			_ = err
			delete(st.dirty, e.path)
			// an fsync of a directory makes the renames / removals directly inside it durable
			for np := range st.unsyncedMv {
				if filepath.Dir(np) == e.path {
					delete(st.unsyncedMv, np)
				}
			}
			for rp := range st.unsyncedRm {
				if filepath.Dir(rp) == e.path {
					delete(st.unsyncedRm, rp)
				}
			}
		case "rename":
			st.unsyncedMv[e.path2] = e.path
			// files keep their dirty state under the new name
			for p := range st.dirty {
				if strings.HasPrefix(p, e.path+"/") {
					st.dirty[e.path2+strings.TrimPrefix(p, e.path)] = true
					delete(st.dirty, p)
				}
			}
		case "unlink", "rmdir":
			st.unsyncedRm[e.path] = true
			delete(st.dirty, e.path)
		}
	}
	return st
}

// ---------- parent: oracle ----------

func checkImage(col *table.Collector, dir string, im imageFact, variant string, lostSync map[string]bool) {
	logger := hclog.New(&hclog.LoggerOptions{Output: io.Discard, Level: hclog.Off})
	base := filepath.Join(dir, "base")
	os.MkdirAll(base, 0o755)
	// FileSnapshotStore keeps its data in <base>/snapshots
	store, err := raft.NewFileSnapshotStoreWithLogger(base, im.Retain, logger)
	if err != nil {
		col.Violate("store-does-not-open", "image %d (%s, %s): %v", im.N, im.Point, variant, err)
		return
	}
	list, err := store.List()
	if err != nil {
		col.Violate("list-fails", "image %d (%s, %s): %v", im.N, im.Point, variant, err)
		return
	}
	desc := fmt.Sprintf("image %d at hook %s variant %s", im.N, im.Point, variant)
	byID := map[string]snapFact{}
	for _, s := range im.Snaps {
		byID[s.ID] = s
	}
	if len(list) > im.Retain {
		col.Violate("list-exceeds-retain", "%s: %d listed, retain %d", desc, len(list), im.Retain)
	}
	listed := map[string]bool{}
	for i, m := range list {
		listed[m.ID] = true
		f, ok := byID[m.ID]
		if !ok {
			col.Violate("unknown-snapshot-listed", "%s: %s", desc, m.ID)
			continue
		}
		if f.State == "cancelled" || f.State == "abandoned" || f.State == "cancelling" {
			col.Violate("incomplete-snapshot-listed", "%s: %s (%s) is listed", desc, m.ID, f.State)
		}
		if m.Index != f.Index || m.Term != f.Term || m.ConfigurationIndex != f.CfgIdx || len(m.Configuration.Servers) != 2 {
			col.Violate("wrong-meta", "%s: %s listed with index %d term %d cfgidx %d, created with %d/%d/%d", desc, m.ID, m.Index, m.Term, m.ConfigurationIndex, f.Index, f.Term, f.CfgIdx)
		}
		if i > 0 {
			p := list[i-1]
			if p.Term < m.Term || (p.Term == m.Term && p.Index < m.Index) || (p.Term == m.Term && p.Index == m.Index && p.ID < m.ID) {
				col.Violate("not-newest-first", "%s: %s listed before %s", desc, p.ID, m.ID)
			}
		}
		_, rc, err := store.Open(m.ID)
		if err != nil {
			col.Violate("listed-snapshot-does-not-open", "%s: %s (%s): %v", desc, m.ID, f.State, err)
			continue
		}
		b, _ := io.ReadAll(rc)
		rc.Close()
		if len(b) != f.Size || sha(b) != f.Hash {
			col.Violate("wrong-content", "%s: %s opens with %d bytes (hash %s), %d bytes (hash %s) were written", desc, m.ID, len(b), sha(b), f.Size, f.Hash)
		}
		if int64(len(b)) != m.Size {
			col.Violate("wrong-size-in-meta", "%s: %s meta size %d, content %d", desc, m.ID, m.Size, len(b))
		}
	}
	// durability: a snapshot whose Close returned nil before this image is listed
	// unless `retain` listed snapshots are newer than it (a snapshot that is
	// being closed right now may already be in place and count)
	newer := func(a *raft.SnapshotMeta, s snapFact) bool {
		if a.Term != s.Term {
			return a.Term > s.Term
		}
		if a.Index != s.Index {
			return a.Index > s.Index
		}
		return a.ID > s.ID
	}
	for _, s := range im.Snaps {
		if s.State != "closed" || listed[s.ID] || lostSync[s.ID] {
			continue
		}
		n := 0
		for _, m := range list {
			if newer(m, s) {
				n++
			}
		}
		if n < im.Retain {
			col.Violate("closed-snapshot-missing", "%s: %s (index %d term %d) was closed successfully, only %d newer snapshots are listed (retain %d), yet it is not listed (listed: %v)", desc, s.ID, s.Index, s.Term, n, im.Retain, keys(listed))
		}
	}
	col.Cov("images-checked", 1)
}

func keys(m map[string]bool) []string {
	var out []string
	for k := range m {
		out = append(out, k)
	}
	sort.Strings(out)
	return out
}

func runHistory(t *testing.T, col *table.Collector, root string, seed int64, k int) {
	rng := rand.New(rand.NewSource(seed*7919 + int64(k)))
	h := genHistory(rng)
	work := filepath.Join(root, fmt.Sprintf("h%d", k))
	os.MkdirAll(work, 0o755)
	defer os.RemoveAll(work)
	hb, _ := json.Marshal(h)
	os.WriteFile(filepath.Join(work, "history.json"), hb, 0o644)
	stlog := filepath.Join(work, "strace.log")
	cmd := exec.Command("strace", "-f", "-y", "-s", "0", "-o", stlog, "-e", "trace=write,fsync,fdatasync,rename,renameat,renameat2,unlinkat,openat,mkdir,mkdirat,faccessat,faccessat2",
		os.Args[0], "-test.run", "^TestFSnapChild$")
	cmd.Env = append(os.Environ(), "FSNAP_WORK="+work, "FSNAP_SEED="+strconv.FormatInt(seed*1000+int64(k), 10))
	if out, err := cmd.CombinedOutput(); err != nil {
		col.Violate("child-failed", "history %d: %v: %s", k, err, string(out[:min(len(out), 400)]))
		return
	}
	var images []imageFact
	fb, err := os.ReadFile(filepath.Join(work, "facts.json"))
	if err != nil || json.Unmarshal(fb, &images) != nil {
		col.Violate("child-no-facts", "history %d", k)
		return
	}
	evs, err := parseStrace(stlog)
	if err != nil {
		col.Violate("strace-unreadable", "%v", err)
		return
	}
	snapDir := filepath.Join(work, "store", "snapshots")
	nf, nr := 0, 0
	for _, e := range evs {
		if e.kind == "fsync" && strings.HasPrefix(e.path, snapDir) {
			nf++
		}
		if e.kind == "rename" {
			nr++
		}
	}
	col.Cov("fsyncs-observed", nf)
	col.Cov("renames-observed", nr)
	col.Cov("histories", 1)
	for _, im := range images {
		img := filepath.Join(work, "images", strconv.Itoa(im.N))
		if _, err := os.Stat(img); err != nil {
			os.MkdirAll(img, 0o755)
		}
		// (a) everything written so far survived
		mat := filepath.Join(work, "mat")
		os.RemoveAll(mat)
		copyTree(img, filepath.Join(mat, "base", "snapshots"))
		checkImage(col, mat, im, "kept", nil)
		col.Distinct(fmt.Sprintf("%d/%d/%s", k, im.N, im.Point))
		// (b) un-synced data lost
		st := replay(evs, snapDir, im.N)
		rel := func(p string) string { r, _ := filepath.Rel(snapDir, p); return r }
		// (b1) every dirty file truncated to empty / to half
		if len(st.dirty) > 0 {
			for _, frac := range []int{0, 2} {
				os.RemoveAll(mat)
				copyTree(img, filepath.Join(mat, "base", "snapshots"))
				lost := map[string]bool{}
				for p := range st.dirty {
					tp := filepath.Join(mat, "base", "snapshots", rel(p))
					if b, err := os.ReadFile(tp); err == nil {
						nb := []byte{}
						if frac == 2 {
							nb = b[:len(b)/2]
						}
						os.WriteFile(tp, nb, 0o644)
						lost[strings.TrimSuffix(strings.Split(rel(p), "/")[0], ".tmp")] = true
					}
				}
				// a closed snapshot with dirty files means a missing fsync
				for _, s := range im.Snaps {
					if s.State == "closed" && lost[s.ID] {
						col.Violate("closed-snapshot-has-unsynced-file", "history %d image %d (%s): %s was closed successfully but a file of it was written and never fsynced: %v", k, im.N, im.Point, s.ID, keys2(st.dirty))
					}
				}
				checkImage(col, mat, im, fmt.Sprintf("unsynced-data-lost/%d", frac), lost)
				col.Cov("variants-unsynced-data", 1)
			}
		}
		// (b2) un-synced renames reverted
		if len(st.unsyncedMv) > 0 {
			os.RemoveAll(mat)
			copyTree(img, filepath.Join(mat, "base", "snapshots"))
			lost := map[string]bool{}
			for np, op := range st.unsyncedMv {
				a, b := filepath.Join(mat, "base", "snapshots", rel(np)), filepath.Join(mat, "base", "snapshots", rel(op))
				if _, err := os.Stat(a); err == nil {
					os.Rename(a, b)
					lost[filepath.Base(np)] = true
				}
			}
			for _, s := range im.Snaps {
				if s.State == "closed" && lost[s.ID] {
					col.Violate("closed-snapshot-rename-not-durable", "history %d image %d (%s): %s was closed successfully but the rename into place was not followed by an fsync of the parent directory", k, im.N, im.Point, s.ID)
				}
			}
			checkImage(col, mat, im, "unsynced-rename-reverted", lost)
			col.Cov("variants-unsynced-rename", 1)
		}
		// (b3) un-synced removals reverted: take the removed files from the previous image
		if len(st.unsyncedRm) > 0 && im.N > 1 {
			prev := filepath.Join(work, "images", strconv.Itoa(im.N-1))
			os.RemoveAll(mat)
			copyTree(img, filepath.Join(mat, "base", "snapshots"))
			n := 0
			for rp := range st.unsyncedRm {
				src := filepath.Join(prev, rel(rp))
				dst := filepath.Join(mat, "base", "snapshots", rel(rp))
				if fi, err := os.Stat(src); err == nil {
					if fi.IsDir() {
						os.MkdirAll(dst, 0o755)
					} else if b, err := os.ReadFile(src); err == nil {
						os.MkdirAll(filepath.Dir(dst), 0o755)
						os.WriteFile(dst, b, 0o644)
					}
					n++
				}
			}
			if n > 0 {
				checkImage(col, mat, im, "unsynced-removal-reverted", nil)
				col.Cov("variants-unsynced-removal", 1)
			}
		}
	}
	// (c) crash points at every system-call boundary between two hook images,
	// so that a reordering of the file-system steps cannot hide between hooks
	interpolate(col, work, snapDir, evs, images, k)
	// corruption of final images
	if len(images) > 0 {
		last := images[len(images)-1]
		img := filepath.Join(work, "images", strconv.Itoa(last.N))
		corrupt(col, rng, work, img, last)
	}
}

// interpolate rebuilds the directory after every state-changing system call
// between consecutive hook images (file contents are taken from the later
// image: within one window a file is only appended to) and checks each.
func interpolate(col *table.Collector, work, snapDir string, evs []sysEv, images []imageFact, k int) {
	byN := map[int]imageFact{}
	for _, im := range images {
		byN[im.N] = im
	}
	cur := 0 // marker number of the last image passed
	var window []sysEv
	rel := func(p string) (string, bool) {
		if !strings.HasPrefix(p, snapDir+"/") {
			return "", false
		}
		return strings.TrimPrefix(p, snapDir+"/"), true
	}
	for _, e := range evs {
		if e.kind != "marker" {
			if cur > 0 {
				window = append(window, e)
			}
			continue
		}
		next := e.marker
		if cur > 0 && len(window) > 1 {
			from := filepath.Join(work, "images", strconv.Itoa(cur))
			to := filepath.Join(work, "images", strconv.Itoa(next))
			mat := filepath.Join(work, "mat")
			os.RemoveAll(mat)
			root := filepath.Join(mat, "base", "snapshots")
			copyTree(from, root)
			os.MkdirAll(root, 0o755)
			wrote := map[string]int{} // bytes appended per file in this window
			nw := map[string]int{}
			for _, w := range window {
				if w.kind == "write" {
					nw[w.path]++
				}
			}
			seenW := map[string]int{}
			for i, w := range window {
				changed := false
				switch w.kind {
				case "mkdir":
					if r, ok := rel(w.path); ok {
						os.MkdirAll(filepath.Join(root, r), 0o755)
						changed = true
					}
				case "create":
					if r, ok := rel(w.path); ok {
						os.MkdirAll(filepath.Dir(filepath.Join(root, r)), 0o755)
						os.WriteFile(filepath.Join(root, r), nil, 0o644)
						wrote[w.path] = 0
						changed = true
					}
				case "write":
					if r, ok := rel(w.path); ok {
						wrote[w.path] += w.n
						seenW[w.path]++
						// content: prefix of what the file holds in the later image (the
						// directory may have been renamed within the window)
						final, err := os.ReadFile(filepath.Join(to, r))
						if err != nil {
							final, _ = os.ReadFile(filepath.Join(to, strings.Replace(r, ".tmp/", "/", 1)))
						}
						nn := wrote[w.path]
						if nn > len(final) {
							nn = len(final)
						}
						os.WriteFile(filepath.Join(root, r), final[:nn], 0o644)
						// large files are written in many small pieces: look at the first, a middle and the last
						c := seenW[w.path]
						changed = c == 1 || c == nw[w.path] || c == nw[w.path]/2
					}
				case "rename":
					r1, ok1 := rel(w.path)
					r2, ok2 := rel(w.path2)
					if ok1 && ok2 {
						os.Rename(filepath.Join(root, r1), filepath.Join(root, r2))
						for p, n := range wrote {
							if strings.HasPrefix(p, w.path+"/") {
								wrote[w.path2+strings.TrimPrefix(p, w.path)] = n
							}
						}
						changed = true
					}
				case "unlink", "rmdir":
					if r, ok := rel(w.path); ok {
						os.Remove(filepath.Join(root, r))
						changed = true
					}
				}
				if changed && i < len(window)-1 {
					im := byN[cur]
					im.Point = fmt.Sprintf("after %s #%d of the window following hook %s", w.kind, i+1, byN[cur].Point)
					checkImage(col, mat, im, "syscall-boundary", nil)
					col.Cov("images-at-syscall-boundaries", 1)
				}
			}
		}
		cur = next
		window = window[:0]
	}
	_ = k
}

func keys2(m map[string]bool) []string {
	var out []string
	for k := range m {
		out = append(out, filepath.Base(filepath.Dir(k))+"/"+filepath.Base(k))
	}
	sort.Strings(out)
	return out
}

// corrupt: a damaged state file must make Open fail, a damaged meta file must
// drop the entry from List, and neither may disturb the other snapshots.
func corrupt(col *table.Collector, rng *rand.Rand, work, img string, im imageFact) {
	logger := hclog.New(&hclog.LoggerOptions{Output: io.Discard, Level: hclog.Off})
	ents, _ := os.ReadDir(img)
	var dirs []string
	for _, e := range ents {
		if e.IsDir() && !strings.HasSuffix(e.Name(), ".tmp") {
			dirs = append(dirs, e.Name())
		}
	}
	if len(dirs) == 0 {
		return
	}
	victim := dirs[rng.Intn(len(dirs))]
	for _, mode := range []string{"state-flip", "state-truncate", "state-append", "state-replace-tail", "meta-truncate", "meta-garbage", "meta-version"} {
		mat := filepath.Join(work, "mat")
		os.RemoveAll(mat)
		copyTree(img, filepath.Join(mat, "base", "snapshots"))
		sp := filepath.Join(mat, "base", "snapshots", victim, "state.bin")
		mp := filepath.Join(mat, "base", "snapshots", victim, "meta.json")
		sb, _ := os.ReadFile(sp)
		mb, _ := os.ReadFile(mp)
		switch mode {
		case "state-flip":
			if len(sb) == 0 {
				continue
			}
			sb[rng.Intn(len(sb))] ^= 1 << uint(rng.Intn(8))
			os.WriteFile(sp, sb, 0o644)
		case "state-truncate":
			if len(sb) == 0 {
				continue
			}
			os.WriteFile(sp, sb[:rng.Intn(len(sb))], 0o644)
		case "state-append":
			// stray bytes behind the data (a misdirected write, the tail of an older, longer file): an empty
			// snapshot is affected as well
			extra := make([]byte, 1+rng.Intn(4096))
			rng.Read(extra)
			os.WriteFile(sp, append(sb, extra...), 0o644)
		case "state-replace-tail":
			// same length, the last bytes are different
			if len(sb) == 0 {
				continue
			}
			k := 1 + rng.Intn(min(len(sb), 64))
			for i := len(sb) - k; i < len(sb); i++ {
				sb[i] ^= 0xff
			}
			os.WriteFile(sp, sb, 0o644)
		case "meta-truncate":
			os.WriteFile(mp, mb[:len(mb)/2], 0o644)
		case "meta-garbage":
			os.WriteFile(mp, []byte("{not json"), 0o644)
		case "meta-version":
			os.WriteFile(mp, bytes.Replace(mb, []byte(`"Version":1`), []byte(`"Version":9`), 1), 0o644)
		}
		store, err := raft.NewFileSnapshotStoreWithLogger(filepath.Join(mat, "base"), 100, logger)
		if err != nil {
			col.Violate("store-does-not-open", "corruption %s: %v", mode, err)
			continue
		}
		list, err := store.List()
		if err != nil {
			col.Violate("list-fails", "corruption %s: %v", mode, err)
			continue
		}
		col.Cov("corruptions", 1)
		seen := map[string]bool{}
		for _, m := range list {
			seen[m.ID] = true
			_, rc, err := store.Open(m.ID)
			if m.ID == victim {
				if strings.HasPrefix(mode, "meta") {
					col.Violate("bad-meta-listed", "corruption %s of %s: still listed", mode, victim)
				}
				if err == nil {
					b, _ := io.ReadAll(rc)
					rc.Close()
					for _, f := range im.Snaps {
						if f.ID == victim && sha(b) != f.Hash {
							col.Violate("corrupt-state-opens", "corruption %s of %s: Open succeeded with content that differs from what was written (no checksum failure)", mode, victim)
						}
					}
				}
				continue
			}
			if err != nil {
				col.Violate("corruption-disturbs-others", "corruption %s of %s: %s no longer opens: %v", mode, victim, m.ID, err)
				continue
			}
			rc.Close()
		}
		for _, d := range dirs {
			if d != victim && !seen[d] {
				col.Violate("corruption-disturbs-others", "corruption %s of %s: %s is no longer listed", mode, victim, d)
			}
		}
	}
}

func TestC15(t *testing.T) {
	col := table.NewCollector("C15")
	defer col.Write()
	if _, err := exec.LookPath("strace"); err != nil {
		col.Violate("no-strace", "strace not available: %v", err)
		return
	}
	shard, shards := table.Shard()
	total := 20
	if table.Thorough() {
		total = 400
	}
	home, _ := os.UserHomeDir()
	root, err := os.MkdirTemp(filepath.Join(home, ".cache", "rv"), "fsnap-")
	if err != nil {
		os.MkdirAll(filepath.Join(home, ".cache", "rv"), 0o755)
		root, err = os.MkdirTemp(filepath.Join(home, ".cache", "rv"), "fsnap-")
		if err != nil {
			t.Fatal(err)
		}
	}
	defer os.RemoveAll(root)
	n := 0
	for k := 0; k < total; k++ {
		if k%shards != shard {
			continue
		}
		runHistory(t, col, root, table.Seed(), k)
		n++
	}
	col.Eval(col.CovGet("images-checked"))
	col.Sample(map[string]interface{}{"histories": n, "example_history": genHistory(rand.New(rand.NewSource(table.Seed()*7919 + int64(shard))))})
}
