// Package handler is the HANDLER engine: one real raft server, started on a
// prepared durable image inside a synctest bubble, is driven RPC by RPC through
// its Transport consumer. Because the harness never lets virtual time pass
// between RPCs the server never starts an election on its own.
package handler

import (
	"io"
	"sync"
	"time"

	"github.com/hashicorp/go-hclog"
	"github.com/hashicorp/raft"

	"rv/sim"
)

type Solo struct {
	W    *sim.World
	D    *sim.Disk
	Net  *sim.Net
	H    *sim.Handle
	Tr   *sim.Trans
	R    *raft.Raft
	Name string
	old  []*raft.Raft
	mu   sync.Mutex // guards H and R against the observer goroutine of the C06 driver
}

// Live returns the current incarnation and whether it has not crashed (for concurrent observers).
func (s *Solo) Live() (*raft.Raft, bool) {
	s.mu.Lock()
	defer s.mu.Unlock()
	if s.R == nil || s.H == nil {
		return nil, false
	}
	return s.R, s.D.Epoch() == s.H.Epoch()
}

func conf(name string) *raft.Config {
	cf := raft.DefaultConfig()
	cf.LocalID = raft.ServerID(name)
	cf.HeartbeatTimeout = 10 * time.Second
	cf.ElectionTimeout = 10 * time.Second
	cf.LeaderLeaseTimeout = 10 * time.Second
	cf.CommitTimeout = time.Second
	cf.SnapshotInterval = time.Hour
	cf.SnapshotThreshold = 1 << 40
	cf.TrailingLogs = 0
	cf.Logger = hclog.New(&hclog.LoggerOptions{Output: io.Discard, Level: hclog.Off})
	return cf
}

func NewSolo(name string) *Solo {
	w := sim.NewWorld("")
	return &Solo{W: w, D: sim.NewDisk(w, name, sim.Flavor{}), Net: sim.NewNet(w, 1), Name: name}
}

// Start creates a new incarnation on the current durable image.
func (s *Solo) Start() error {
	h := s.D.Open()
	tr := s.Net.NewTrans(s.Name, s.D, h.Epoch(), false, false)
	fsm := sim.NewRecFSM(s.D, h.Epoch())
	s.mu.Lock()
	s.H, s.Tr, s.R = h, tr, nil
	s.mu.Unlock()
	r, err := raft.NewRaft(conf(s.Name), sim.WrapFSM(fsm, 0), h, h, h, tr)
	if err != nil {
		return err
	}
	s.mu.Lock()
	s.R = r
	s.mu.Unlock()
	return nil
}

// Crashed reports whether a fault-triggered crash happened since Start.
func (s *Solo) Crashed() bool { return s.D.Epoch() != s.H.Epoch() }

// Restart retires the current incarnation and starts a new one.
func (s *Solo) Restart() error {
	if !s.Crashed() {
		s.D.Crash("now")
	}
	s.old = append(s.old, s.R)
	return s.Start()
}

// Stop shuts everything down.
func (s *Solo) Stop() {
	for _, r := range s.old {
		r.Shutdown().Error()
	}
	if s.R != nil {
		s.R.Shutdown().Error()
	}
}

func Hdr(id string) raft.RPCHeader {
	return raft.RPCHeader{ProtocolVersion: 3, ID: []byte(id), Addr: []byte(id)}
}
