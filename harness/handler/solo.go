// Package handler is the HANDLER engine: one real raft server, started on a
// prepared durable image inside a synctest bubble, is driven RPC by RPC through
// its Transport consumer. Because the harness never lets virtual time pass
// between RPCs the server never starts an election on its own.
package handler

import (
	"io"
	"time"

	"github.com/hashicorp/go-hclog"
	"github.com/hashicorp/raft"

	"rv/sim"
)

type Solo struct {
	W    *sim.World
	D    *sim.Disk
	Net  *sim.Net
	H    *sim.Handle
	Tr   *sim.Trans
	R    *raft.Raft
	Name string
	old  []*raft.Raft
}

func conf(name string) *raft.Config {
	cf := raft.DefaultConfig()
	cf.LocalID = raft.ServerID(name)
	cf.HeartbeatTimeout = 10 * time.Second
	cf.ElectionTimeout = 10 * time.Second
	cf.LeaderLeaseTimeout = 10 * time.Second
	cf.CommitTimeout = time.Second
	cf.SnapshotInterval = time.Hour
	cf.SnapshotThreshold = 1 << 40
	cf.TrailingLogs = 0
	cf.Logger = hclog.New(&hclog.LoggerOptions{Output: io.Discard, Level: hclog.Off})
	return cf
}

func NewSolo(name string) *Solo {
	w := sim.NewWorld("")
	return &Solo{W: w, D: sim.NewDisk(w, name, sim.Flavor{}), Net: sim.NewNet(w, 1), Name: name}
}

// Start creates a new incarnation on the current durable image.
func (s *Solo) Start() error {
	s.H = s.D.Open()
	s.Tr = s.Net.NewTrans(s.Name, s.D, s.H.Epoch(), false, false)
	fsm := sim.NewRecFSM(s.D, s.H.Epoch())
	r, err := raft.NewRaft(conf(s.Name), sim.WrapFSM(fsm, 0), s.H, s.H, s.H, s.Tr)
	if err != nil {
		return err
	}
	s.R = r
	return nil
}

// Crashed reports whether a fault-triggered crash happened since Start.
func (s *Solo) Crashed() bool { return s.D.Epoch() != s.H.Epoch() }

// Restart retires the current incarnation and starts a new one.
func (s *Solo) Restart() error {
	if !s.Crashed() {
		s.D.Crash("now")
	}
	s.old = append(s.old, s.R)
	return s.Start()
}

// Stop shuts everything down.
func (s *Solo) Stop() {
	for _, r := range s.old {
		r.Shutdown().Error()
	}
	if s.R != nil {
		s.R.Shutdown().Error()
	}
}

func Hdr(id string) raft.RPCHeader {
	return raft.RPCHeader{ProtocolVersion: 3, ID: []byte(id), Addr: []byte(id)}
}
