package handler

import (
	"fmt"
	"math/rand"
	"sync"
	"sync/atomic"
	"testing"
	"testing/synctest"
	"time"

	"github.com/hashicorp/raft"

	"rv/sim"
	"rv/table"
)

// ---- C06: vote / term integrity with a fault at every stable-store write ----

type voteState struct {
	term     uint64
	voteTerm uint64 // 0 = no record
	voteCand string // "" with voteTerm != 0: term without candidate
	logTerms []uint64
	cfg      int    // 0: S,A,B voters (C absent); 1: A is a non-voter; 2: no configuration at all
	snapIdx  uint64 // a complete snapshot ahead of the log (0 = none): the voter's last entry is the snapshot's
	snapTerm uint64
}

type vmsg struct {
	kind     byte // 'v' RequestVote, 'p' RequestPreVote, 'h' heartbeat, 't' TimeoutNow (the server campaigns itself)
	term     int  // relative to the voter's initial term: -1..+2
	cand     string
	logPos   int // -1 behind, 0 equal, +1 ahead of the voter's last entry
	transfer bool
}

func (m vmsg) String() string {
	return fmt.Sprintf("%c(term%+d,%s,log%+d,xfer=%v)", m.kind, m.term, m.cand, m.logPos, m.transfer)
}

type vfault struct {
	nth  int // which stable-store write of the run (1-based); 0 = none
	when string
}

type vcase struct {
	st    voteState
	msgs  []vmsg
	fault vfault
}

func (c vcase) String() string {
	return fmt.Sprintf("state{term %d vote (%d,%q) log %v snapshot %d/%d cfg %d} msgs %v fault{write #%d %s}", c.st.term, c.st.voteTerm, c.st.voteCand, c.st.logTerms, c.st.snapIdx, c.st.snapTerm, c.st.cfg, c.msgs, c.fault.nth, c.fault.when)
}

type vobs struct {
	grants    []string // "term/cand"
	violation []string
	writes    int
}

func lastOf(terms []uint64) (uint64, uint64) {
	if len(terms) == 0 {
		return 0, 0
	}
	return uint64(len(terms)), terms[len(terms)-1]
}

func runVote(c vcase, col *table.Collector) vobs {
	var o vobs
	s := NewSolo("S")
	h := s.D.Open()
	var cfg raft.Configuration
	switch c.st.cfg {
	case 0:
		cfg.Servers = []raft.Server{{ID: "S", Address: "S"}, {ID: "A", Address: "A"}, {ID: "B", Address: "B"}}
	case 1:
		cfg.Servers = []raft.Server{{ID: "S", Address: "S"}, {ID: "A", Address: "A", Suffrage: raft.Nonvoter}, {ID: "B", Address: "B"}}
	}
	var logs []*raft.Log
	for i, t := range c.st.logTerms {
		l := &raft.Log{Index: uint64(i + 1), Term: t, Type: raft.LogNoop}
		if i == 0 && c.st.cfg != 2 {
			l.Type, l.Data = raft.LogConfiguration, raft.EncodeConfiguration(cfg)
		}
		logs = append(logs, l)
	}
	if len(logs) > 0 {
		h.StoreLogs(logs)
	}
	if c.st.snapIdx > 0 {
		st := sim.FSMState{}
		sk, _ := h.Create(1, c.st.snapIdx, c.st.snapTerm, cfg, 1, nil)
		sk.Write([]byte(st.Encode()))
		sk.Close()
	}
	h.SetUint64([]byte("CurrentTerm"), c.st.term)
	if c.st.voteTerm != 0 {
		h.SetUint64([]byte("LastVoteTerm"), c.st.voteTerm)
		if c.st.voteCand != "" {
			h.Set([]byte("LastVoteCand"), []byte(c.st.voteCand))
		}
	}
	base := s.D.Ops()
	// a stable store whose writes take a moment, and somebody who keeps asking the server for its term
	// meanwhile (CurrentTerm() is answered from memory, whatever the main loop is doing): a term the
	// server has shown must survive a crash at any point of the write that was in flight
	s.D.StableDelay = time.Millisecond
	if err := s.Start(); err != nil {
		o.violation = append(o.violation, "start: "+err.Error())
		return o
	}
	synctest.Wait()
	var shown atomic.Uint64 // largest term any live incarnation showed through CurrentTerm()
	obsStop, obsDone := make(chan struct{}), make(chan struct{})
	go func() {
		defer close(obsDone)
		tk := time.NewTicker(300 * time.Microsecond)
		defer tk.Stop()
		for {
			select {
			case <-obsStop:
				return
			case <-tk.C:
				r, live := s.Live()
				if !live {
					continue
				}
				ct := r.CurrentTerm()
				if r2, live2 := s.Live(); live2 && r2 == r && ct > shown.Load() {
					// still the live incarnation after the reading: the reading precedes any crash
					shown.Store(ct)
				}
			}
		}
	}()
	defer func() { close(obsStop); <-obsDone }()
	startOps := s.D.Ops() // NewRaft itself writes the term once
	// Fake peers A and B: they hold every RequestVote of S until the end of the message
	// sequence and then grant it, so that S's own candidacy (message 't') can succeed late.
	release, stopPeers := make(chan struct{}), make(chan struct{})
	var peerWG sync.WaitGroup
	for _, pn := range []string{"A", "B"} {
		pd := sim.NewDisk(s.W, pn, sim.Flavor{})
		ph := pd.Open()
		pt := s.Net.NewTrans(pn, pd, ph.Epoch(), false, false)
		peerWG.Add(1)
		go func() {
			defer peerWG.Done()
			for {
				select {
				case <-stopPeers:
					return
				case rpc := <-pt.Consumer():
					switch q := rpc.Command.(type) {
					case *raft.RequestVoteRequest:
						peerWG.Add(1)
						go func() {
							defer peerWG.Done()
							select {
							case <-release:
								rpc.Respond(&raft.RequestVoteResponse{RPCHeader: Hdr(pn), Term: q.Term, Granted: true}, nil)
							case <-stopPeers:
								rpc.Respond(nil, fmt.Errorf("peer gone"))
							}
						}()
					case *raft.RequestPreVoteRequest:
						rpc.Respond(&raft.RequestPreVoteResponse{RPCHeader: Hdr(pn), Term: q.Term, Granted: true}, nil)
					case *raft.AppendEntriesRequest:
						rpc.Respond(&raft.AppendEntriesResponse{RPCHeader: Hdr(pn), Term: q.Term, LastLog: q.PrevLogEntry + uint64(len(q.Entries)), Success: true}, nil)
					default:
						rpc.Respond(nil, fmt.Errorf("not served"))
					}
				}
			}
		}()
	}
	defer func() {
		close(stopPeers)
		peerWG.Wait()
	}()
	if c.fault.nth > 0 {
		s.D.Arm(sim.Fault{Kind: "set", Nth: c.fault.nth, When: c.fault.when})
	}
	granted := map[uint64]string{} // term -> candidate, observed grants (plus the initial record)
	if c.st.voteTerm != 0 && c.st.voteCand != "" {
		granted[c.st.voteTerm] = c.st.voteCand
	}
	maxTerm := s.R.CurrentTerm()
	if maxTerm != c.st.term {
		o.violation = append(o.violation, fmt.Sprintf("restart-wrong-term: started with term %d, durable %d", maxTerm, c.st.term))
	}
	li, lt := lastOf(c.st.logTerms)
	if c.st.snapIdx > li {
		li, lt = c.st.snapIdx, c.st.snapTerm
	}
	for k, m := range c.msgs {
		term := uint64(int(c.st.term) + m.term)
		if term == 0 {
			term = 1
		}
		ci, ct := li, lt
		switch m.logPos {
		case -1:
			if li > 0 {
				ci = li - 1
				if ci == 0 {
					ct = 0
				} else if int(ci) <= len(c.st.logTerms) {
					ct = c.st.logTerms[ci-1]
				} else {
					ct = lt // inside the snapshot: same term, shorter log
				}
			}
		case 1:
			ci, ct = li+1, lt+1
		}
		dTerm, dVT, dVC, dHas := s.D.Stable()
		evBefore := len(s.W.Snapshot())
		var resp interface{}
		var rr raft.RPCResponse
		switch m.kind {
		case 'v':
			rr = s.Tr.Inject(&raft.RequestVoteRequest{RPCHeader: Hdr(m.cand), Term: term, Candidate: []byte(m.cand), LastLogIndex: ci, LastLogTerm: ct, LeadershipTransfer: m.transfer}, nil)
		case 'p':
			rr = s.Tr.Inject(&raft.RequestPreVoteRequest{RPCHeader: Hdr(m.cand), Term: term, LastLogIndex: ci, LastLogTerm: ct}, nil)
		case 'h':
			rr = s.Tr.Inject(&raft.AppendEntriesRequest{RPCHeader: Hdr(m.cand), Term: term, Leader: []byte(m.cand)}, nil)
		case 't':
			rr = s.Tr.Inject(&raft.TimeoutNowRequest{RPCHeader: Hdr("A")}, nil)
			// the candidacy runs up to the point where its requests wait at the peers (its stable-store
			// writes take a millisecond each)
			time.Sleep(20 * time.Millisecond)
			synctest.Wait()
			col.Cov("own-candidacy", 1)
		}
		resp = rr.Response
		// a vote is cast when both writes of one persistVote call are durable,
		// whether or not the response reaches anybody
		{
			evs := s.W.Snapshot()
			var vt uint64
			var vc string
			var haveT, haveC bool
			for _, e := range evs[evBefore:] {
				switch e.K {
				case "d.setu.LastVoteTerm":
					vt, haveT = e.A, true
				case "d.set.LastVoteCand":
					vc, haveC = e.Y, true
				}
			}
			if haveT && haveC {
				if prev, ok := granted[vt]; ok && prev != vc {
					o.violation = append(o.violation, fmt.Sprintf("two-votes-one-term: durably recorded a vote for %s in term %d after %s", vc, vt, prev))
				} else if !ok && !s.Crashed() {
					// checked below when the response shows the grant
				}
				if s.Crashed() {
					granted[vt] = vc
				}
			}
		}
		if s.Crashed() {
			// the response of a crashed incarnation never reaches anybody
			col.Cov("crash-taken", 1)
			if err := s.Restart(); err != nil {
				o.violation = append(o.violation, "restart: "+err.Error())
				return o
			}
			synctest.Wait()
			dT, _, _, _ := s.D.Stable()
			if got := s.R.CurrentTerm(); got != dT {
				o.violation = append(o.violation, fmt.Sprintf("restart-wrong-term: restarted with term %d, durable %d", got, dT))
			}
			if got, sh := s.R.CurrentTerm(), shown.Load(); got < sh {
				// a crash before the term write loses a term nobody was told about: only terms
				// that were reported count - CurrentTerm() had reported this one
				o.violation = append(o.violation, fmt.Sprintf("reported-term-decrease: CurrentTerm() showed term %d while message %d %v was being handled; after the crash the server restarted with term %d", sh, k, m, got))
			}
			col.Cov("restart-term-vs-shown", 1)
			continue
		}
		var rTerm uint64
		var grantedNow bool
		switch r := resp.(type) {
		case *raft.RequestVoteResponse:
			rTerm, grantedNow = r.Term, r.Granted
		case *raft.RequestPreVoteResponse:
			rTerm = r.Term
			// C06.4: a pre-vote never changes the durable term or vote
			aT, aVT, aVC, aHas := s.D.Stable()
			if aT != dTerm || aVT != dVT || aVC != dVC || aHas != dHas {
				o.violation = append(o.violation, fmt.Sprintf("prevote-changed-durable-state: message %d %v changed (term %d, vote %d/%q) to (term %d, vote %d/%q)", k, m, dTerm, dVT, dVC, aT, aVT, aVC))
			}
			if r.Granted {
				col.Cov("prevote-granted", 1)
			}
		case *raft.AppendEntriesResponse:
			rTerm = r.Term
		}
		if m.kind == 't' {
			if ct := s.R.CurrentTerm(); ct > maxTerm {
				maxTerm = ct
			}
			continue
		}
		if m.kind != 'p' {
			// reported terms never decrease (a pre-vote response echoes the proposed term by design)
			if rTerm < maxTerm {
				o.violation = append(o.violation, fmt.Sprintf("term-decrease: message %d %v answered with term %d after term %d had been reported", k, m, rTerm, maxTerm))
			}
			if rTerm > maxTerm {
				maxTerm = rTerm
			}
		}
		if ct := s.R.CurrentTerm(); ct < maxTerm && m.kind != 'p' {
			o.violation = append(o.violation, fmt.Sprintf("term-decrease: CurrentTerm() is %d after term %d had been reported", ct, maxTerm))
		}
		if grantedNow {
			col.Cov("vote-granted", 1)
			o.grants = append(o.grants, fmt.Sprintf("%d/%s", term, m.cand))
			if prev, ok := granted[term]; ok && prev != m.cand {
				o.violation = append(o.violation, fmt.Sprintf("two-votes-one-term: granted %s in term %d after %s", m.cand, term, prev))
			} else if !ok {
				// a first grant in this term: log and membership conditions
				if !(ct > lt || (ct == lt && ci >= li)) {
					o.violation = append(o.violation, fmt.Sprintf("vote-for-stale-log: granted %s in term %d with last entry (%d,%d) against own (%d,%d)", m.cand, term, ci, ct, li, lt))
				}
				if c.st.cfg == 1 && m.cand == "A" || c.st.cfg != 2 && m.cand == "C" {
					o.violation = append(o.violation, fmt.Sprintf("vote-for-non-voter: granted %s in term %d, configuration %d", m.cand, term, c.st.cfg))
				}
			}
			granted[term] = m.cand
			if rTerm != term {
				o.violation = append(o.violation, fmt.Sprintf("grant-with-wrong-term: granted in term %d but answered term %d", term, rTerm))
			}
		}
	}
	// the peers now grant whatever S asked them: if S wins a term it has counted its own vote for it
	if !s.Crashed() {
		close(release)
		synctest.Wait()
		if s.R.State() == raft.Leader {
			col.Cov("own-candidacy-won", 1)
			lt := s.R.CurrentTerm()
			if prev, ok := granted[lt]; ok && prev != "S" {
				o.violation = append(o.violation, fmt.Sprintf("two-votes-one-term: became leader of term %d, counting its own vote, after granting %s in that term", lt, prev))
			}
		}
	} else {
		close(release)
	}
	o.writes = int(s.D.Ops() - startOps)
	_ = base
	s.Stop()
	return o
}

func voteCases(f func(vcase)) {
	states := []voteState{}
	for _, term := range []uint64{2, 3} {
		for _, lg := range [][]uint64{{1}, {1, 1, 2}, {1, 2, 2}} {
			for cfg := 0; cfg <= 2; cfg++ {
				for _, v := range []struct {
					t uint64
					c string
				}{{0, ""}, {term, "A"}, {term, "B"}, {term, ""}, {term - 1, "A"}} {
					if lg[len(lg)-1] > term {
						continue
					}
					states = append(states, voteState{term: term, voteTerm: v.t, voteCand: v.c, logTerms: lg, cfg: cfg})
					if cfg != 2 && len(lg) == 1 {
						// the log was compacted into a snapshot that is ahead of it
						states = append(states, voteState{term: term, voteTerm: v.t, voteCand: v.c, logTerms: lg, cfg: cfg, snapIdx: 6, snapTerm: term})
					}
				}
			}
		}
	}
	var msgs []vmsg
	for _, k := range []byte{'v', 'p', 'h'} {
		for term := -1; term <= 2; term++ {
			for _, cand := range []string{"A", "B", "C"} {
				if k == 'h' {
					if cand == "C" {
						continue
					}
					msgs = append(msgs, vmsg{kind: k, term: term, cand: cand})
					continue
				}
				for lp := -1; lp <= 1; lp++ {
					msgs = append(msgs, vmsg{kind: k, term: term, cand: cand, logPos: lp})
					if k == 'v' && lp == 0 {
						msgs = append(msgs, vmsg{kind: k, term: term, cand: cand, logPos: lp, transfer: true})
					}
				}
			}
		}
	}
	_ = states
	for _, st := range states {
		for _, m1 := range msgs {
			for _, m2 := range msgs {
				f(vcase{st: st, msgs: []vmsg{m1, m2}})
			}
		}
		// the server's own candidacy (TimeoutNow), followed / preceded by a competitor's request
		for _, m2 := range msgs {
			f(vcase{st: st, msgs: []vmsg{{kind: 't'}, m2}})
			f(vcase{st: st, msgs: []vmsg{m2, {kind: 't'}}})
		}
	}
}

func TestC06(t *testing.T) {
	col := table.NewCollector("C06")
	defer col.Write()
	shard, shards := table.Shard()
	thorough := table.Thorough()
	total := 0
	voteCases(func(vcase) { total++ })
	quota := 900 / shards // base sequences; each is run with every fault placement
	rng := rand.New(rand.NewSource(table.Seed()*101 + int64(shard)))
	p := float64(quota*shards) / float64(total) * 1.1
	if thorough {
		p = 30000.0 / float64(total)
	}
	n, k := 0, 0
	synctest.Test(t, func(t *testing.T) {
		voteCases(func(c vcase) {
			k++
			pc := p
			if c.msgs[0].kind == 't' || c.msgs[1].kind == 't' {
				pc = p * 8 // the server's own candidacy is a small corner of the space
			}
			if k%shards != shard || rng.Float64() > pc {
				return
			}
			// third message: seeded
			if rng.Intn(2) == 0 {
				c.msgs = append(c.msgs, vmsg{kind: "vph"[rng.Intn(3)], term: rng.Intn(4) - 1, cand: []string{"A", "B"}[rng.Intn(2)], logPos: rng.Intn(3) - 1})
			}
			dry := runVote(c, col)
			report := func(c vcase, o vobs) {
				for _, v := range o.violation {
					sig := v
					if i := indexByte(v, ':'); i > 0 {
						sig = v[:i]
					}
					col.Violate(sig, "%v: %s", c, v)
				}
			}
			report(c, dry)
			n++
			if len(dry.grants) > 0 {
				col.Distinct(fmt.Sprint(k))
			}
			for w := 1; w <= dry.writes; w++ {
				for _, when := range []string{"before", "after", "error"} {
					fc := c
					fc.fault = vfault{nth: w, when: when}
					o := runVote(fc, col)
					report(fc, o)
					n++
					col.Cov("fault-"+when, 1)
					if len(o.grants) > 0 {
						col.Distinct(fmt.Sprintf("%d/%d/%s", k, w, when))
					}
				}
			}
			if n%499 < 4 {
				col.Sample(map[string]interface{}{"case": c.String(), "stable_writes": dry.writes, "grants": dry.grants})
			}
		})
	})
	col.Cov("base-sequences-in-bounded-space", total)
	col.Cov("runs-including-fault-placements", n)
	col.Eval(n)
}

func indexByte(s string, b byte) int {
	for i := 0; i < len(s); i++ {
		if s[i] == b {
			return i
		}
	}
	return -1
}
