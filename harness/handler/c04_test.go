package handler

import (
	"fmt"
	"math/rand"
	"os"
	"strconv"
	"testing"
	"testing/synctest"

	"github.com/hashicorp/raft"

	"rv/sim"
	"rv/table"
)

type ent struct{ i, t uint64 }

func data(i, t uint64) []byte { return []byte(fmt.Sprintf("e%d.%d", i, t)) }

type aeCase struct {
	log      []ent  // follower's entries (contiguous, terms non-decreasing)
	snap     uint64 // snapshot index (0 none); log retains entries > snap-trail
	trail    uint64
	cur      uint64
	reqTerm  uint64
	prev     uint64
	prevTerm uint64
	ents     []ent
	lc       uint64
}

func (c aeCase) String() string {
	return fmt.Sprintf("follower log %v snapshot %d trailing %d term %d | AE term %d prev %d/%d entries %v leaderCommit %d", c.log, c.snap, c.trail, c.cur, c.reqTerm, c.prev, c.prevTerm, c.ents, c.lc)
}

func termSeqs(L int, maxT uint64) [][]uint64 {
	var out [][]uint64
	var rec func(cur []uint64)
	rec = func(cur []uint64) {
		if len(cur) == L {
			out = append(out, append([]uint64(nil), cur...))
			return
		}
		lo := uint64(1)
		if len(cur) > 0 {
			lo = cur[len(cur)-1]
		}
		for t := lo; t <= maxT; t++ {
			rec(append(cur, t))
		}
	}
	rec(nil)
	return out
}

// genCases enumerates the bounded space; f is called for every case.
func genCases(maxL int, f func(aeCase)) {
	for L := 0; L <= maxL; L++ {
		for _, ts := range termSeqs(L, 3) {
			var log []ent
			for i, t := range ts {
				log = append(log, ent{uint64(i + 1), t})
			}
			maxT := uint64(1)
			if L > 0 {
				maxT = ts[L-1]
			}
			type sv struct{ snap, trail uint64 }
			snaps := []sv{{0, 0}}
			for s := 1; s <= L; s++ {
				snaps = append(snaps, sv{uint64(s), 0}, sv{uint64(s), 2})
			}
			for _, sn := range snaps {
				for _, cur := range []uint64{maxT, maxT + 1} {
					for _, rt := range []uint64{cur - 1, cur, cur + 1} {
						if rt == 0 {
							continue
						}
						for prev := uint64(0); prev <= uint64(L)+1; prev++ {
							var pts []uint64
							if prev == 0 {
								pts = []uint64{0}
							} else if prev <= uint64(L) {
								pts = []uint64{ts[prev-1], ts[prev-1] + 1}
							} else {
								pts = []uint64{maxT}
							}
							for _, pt := range pts {
								if pt > rt {
									continue
								}
								// entries: k entries from prev+1; conflictAt = index in batch from which terms are "new" (rt)
								for k := 0; k <= 3; k++ {
									for ca := 0; ca <= k; ca++ {
										// the leader's own entries from the conflict position on: of the request's
										// term, or of an older term than what a stale follower may hold there
										for _, ct := range []uint64{rt, pt, pt + 1} {
											if ct == 0 || ct > rt || (ct != rt && ca == k) || (ct == pt+1 && ct == rt) {
												continue
											}
											var es []ent
											ok := true
											last := pt
											for j := 0; j < k; j++ {
												idx := prev + uint64(j) + 1
												var t uint64
												if j < ca && idx <= uint64(L) && ts[idx-1] >= last {
													t = ts[idx-1] // duplicate of what the follower holds
												} else if j < ca {
													ok = false
													break
												} else {
													t = ct
												}
												if t < last || t > rt {
													ok = false
													break
												}
												es = append(es, ent{idx, t})
												last = t
											}
											if !ok {
												continue
											}
											for _, lc := range []uint64{0, prev + uint64(k), 50} {
												f(aeCase{log: log, snap: sn.snap, trail: sn.trail, cur: cur, reqTerm: rt, prev: prev, prevTerm: pt, ents: es, lc: lc})
											}
										}
									}
								}
							}
						}
					}
				}
			}
		}
	}
}

// runAE executes one case on a real server and returns the observations.
type aeObs struct {
	success bool
	term    uint64
	lastLog uint64
	before  map[uint64]uint64 // index -> term
	after   map[uint64]uint64
	afterD  map[uint64]string
	lastIdx uint64
	commit  uint64
	err     error
}

func runAE(c aeCase) (o aeObs) {
	s := NewSolo("S")
	h := s.D.Open()
	snapTerm := uint64(0)
	var store []*raft.Log
	for _, e := range c.log {
		if e.i == c.snap {
			snapTerm = e.t
		}
		if c.snap == 0 || e.i+c.trail > c.snap {
			store = append(store, &raft.Log{Index: e.i, Term: e.t, Type: raft.LogCommand, Data: data(e.i, e.t)})
		}
	}
	if len(store) > 0 {
		h.StoreLogs(store)
	}
	h.SetUint64([]byte("CurrentTerm"), c.cur)
	if c.snap > 0 {
		st := sim.FSMState{}
		for _, e := range c.log {
			if e.i <= c.snap {
				st.Step(e.i, e.t, string(data(e.i, e.t)))
			}
		}
		sk, _ := h.Create(1, c.snap, snapTerm, raft.Configuration{}, 0, nil)
		sk.Write([]byte(st.Encode()))
		sk.Close()
	}
	o.before = map[uint64]uint64{}
	for _, e := range s.D.DumpLog() {
		o.before[e.I] = e.T
	}
	if err := s.Start(); err != nil {
		o.err = err
		return
	}
	synctest.Wait()
	req := &raft.AppendEntriesRequest{RPCHeader: Hdr("L"), Term: c.reqTerm, Leader: []byte("L"), PrevLogEntry: c.prev, PrevLogTerm: c.prevTerm, LeaderCommitIndex: c.lc}
	for _, e := range c.ents {
		req.Entries = append(req.Entries, &raft.Log{Index: e.i, Term: e.t, Type: raft.LogCommand, Data: data(e.i, e.t)})
	}
	rr := s.Tr.Inject(req, nil)
	if rr.Error != nil {
		o.err = rr.Error
	} else {
		resp := rr.Response.(*raft.AppendEntriesResponse)
		o.success, o.term, o.lastLog = resp.Success, resp.Term, resp.LastLog
	}
	o.after, o.afterD = map[uint64]uint64{}, map[uint64]string{}
	for _, e := range s.D.DumpLog() {
		o.after[e.I], o.afterD[e.I] = e.T, e.P
	}
	o.lastIdx, o.commit = s.R.LastIndex(), s.R.CommitIndex()
	s.Stop()
	return
}

func checkAE(col *table.Collector, c aeCase, o aeObs) {
	if o.err != nil {
		col.Violate("handler-error", "%v: %v", c, o.err)
		return
	}
	snapTerm := uint64(0)
	for _, e := range c.log {
		if e.i == c.snap {
			snapTerm = e.t
		}
	}
	// reference: does prev match the follower's history?
	prevOK := c.prev == 0
	if t, ok := o.before[c.prev]; ok && t == c.prevTerm {
		prevOK = true
	}
	if c.snap > 0 && c.prev == c.snap && c.prevTerm == snapTerm {
		prevOK = true
	}
	if c.snap > 0 && c.prev > 0 && c.prev < c.snap {
		// inside the snapshot: committed history, the follower cannot compare terms;
		// it matches iff the request names the term the follower's history had there
		for _, e := range c.log {
			if e.i == c.prev && e.t == c.prevTerm {
				prevOK = true
			}
		}
	}
	stale := c.reqTerm < c.cur
	wantTerm := c.cur
	if c.reqTerm > wantTerm {
		wantTerm = c.reqTerm
	}
	if o.term != wantTerm {
		col.Violate("wrong-response-term", "%v: response term %d, expected %d", c, o.term, wantTerm)
	}
	if stale && o.success {
		col.Violate("success-for-stale-term", "%v", c)
	}
	// first conflicting index among the sent entries
	conflict := uint64(0)
	for _, e := range c.ents {
		if t, ok := o.before[e.i]; ok && t != e.t && e.i > c.snap {
			conflict = e.i
			break
		}
	}
	if o.success {
		if !prevOK {
			col.Violate("success-without-prev-match", "%v: success although (prev %d, term %d) is not in the follower's history", c, c.prev, c.prevTerm)
		}
		for _, e := range c.ents {
			if e.i <= c.snap {
				continue
			}
			if t, ok := o.after[e.i]; !ok || t != e.t || o.afterD[e.i] != string(data(e.i, e.t)) {
				col.Violate("success-without-entries", "%v: success but entry %d (term %d) is not in the log afterwards (log %v)", c, e.i, e.t, o.after)
				break
			}
		}
		col.Cov("ae-success", 1)
	} else {
		col.Cov("ae-reject", 1)
		if !stale && prevOK {
			col.Cov("conservative-reject", 1)
		}
	}
	// deletions only from the first conflicting index, and only with a matching prev
	for i, t := range o.before {
		at, still := o.after[i]
		if still && at == t {
			continue
		}
		if stale || !prevOK {
			col.Violate("log-changed-by-rejected-request", "%v: entry %d (term %d) changed or vanished (log after %v)", c, i, t, o.after)
			break
		}
		if conflict == 0 || i < conflict {
			col.Violate("deleted-without-conflict", "%v: entry %d (term %d) changed or vanished but the first conflicting index is %d (log after %v)", c, i, t, conflict, o.after)
			break
		}
	}
	if conflict != 0 && o.success {
		col.Cov("truncation", 1)
	}
	// last index / commit index
	var last uint64
	for i := range o.after {
		if i > last {
			last = i
		}
	}
	if c.snap > last {
		last = c.snap
	}
	if o.lastIdx != last {
		col.Violate("wrong-last-index", "%v: LastIndex() is %d, the log/snapshot reach %d", c, o.lastIdx, last)
	}
	if o.commit > o.lastIdx {
		col.Violate("commit-beyond-last", "%v: commit index %d > last index %d", c, o.commit, o.lastIdx)
	}
}

// realizable: what a snapshot covers is committed, so no leader can send a
// previous entry or an entry inside the follower's snapshot that differs from
// the follower's own history there.
func realizable(c aeCase) bool {
	if c.snap == 0 {
		return true
	}
	at := map[uint64]uint64{}
	for _, e := range c.log {
		at[e.i] = e.t
	}
	if c.prev > 0 && c.prev < c.snap && at[c.prev] != c.prevTerm {
		return false
	}
	for _, e := range c.ents {
		if e.i <= c.snap && at[e.i] != e.t {
			return false
		}
	}
	return true
}

func TestC04(t *testing.T) {
	col := table.NewCollector("C04")
	defer col.Write()
	shard, shards := table.Shard()
	thorough := table.Thorough()
	maxL := 5
	quota := 4000 / shards
	if thorough {
		quota = 1 << 30
	}
	if v, err := strconv.Atoi(os.Getenv("RV_QUOTA")); err == nil {
		quota = v
	}
	// count the space, then take every case (thorough) or a seeded sample (quick)
	total := 0
	genCases(maxL, func(aeCase) { total++ })
	rng := rand.New(rand.NewSource(table.Seed()*31 + int64(shard)))
	p := 1.0
	if !thorough {
		p = float64(quota*shards) / float64(total) * 1.05
	}
	n, k := 0, 0
	synctest.Test(t, func(t *testing.T) {
		genCases(maxL, func(c aeCase) {
			k++
			if k%shards != shard {
				return
			}
			if !thorough && (rng.Float64() > p || n >= quota) {
				return
			}
			if !realizable(c) {
				return
			}
			o := runAE(c)
			checkAE(col, c, o)
			n++
			if len(c.ents) > 0 && o.success {
				col.Distinct(fmt.Sprint(k))
			}
			if n%997 == 1 {
				col.Sample(map[string]interface{}{"case": c.String(), "success": o.success, "log_after": fmt.Sprint(o.after)})
			}
		})
	})
	col.Cov("cases-in-bounded-space", total)
	col.Cov("cases-run", n)
	col.Eval(n)
}
