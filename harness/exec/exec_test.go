// Package exec holds the child-process entry point of the SIM engine: one
// execution per process, inside one synctest bubble.
package exec

import (
	"encoding/json"
	"fmt"
	"os"
	"runtime/pprof"
	"strconv"
	"testing"
	"testing/synctest"
	"time"

	"rv/oracle"
	"rv/sim"
)

type output struct {
	Scenario sim.Scenario   `json:"scenario"`
	Result   *oracle.Result `json:"result"`
	Events   int            `json:"events"`
	VirtMs   int64          `json:"virt_ms"`
	WallMs   int64          `json:"wall_ms"`
	Taken    []string       `json:"faults_taken"`
	Fatal    []string       `json:"fatal,omitempty"`
}

func writeJSON(path string, v interface{}) {
	b, _ := json.Marshal(v)
	os.WriteFile(path, b, 0o644)
}

// TestExec runs the scenario named by RV_FAMILY / RV_SEED / RV_IDX (or the
// scenario file RV_SCENARIO) and writes <RV_OUT>.result.json, plus the event
// log <RV_OUT>.events.jsonl.
func TestExec(t *testing.T) {
	out := os.Getenv("RV_OUT")
	if out == "" {
		t.Skip("RV_OUT not set")
	}
	var sc sim.Scenario
	if f := os.Getenv("RV_SCENARIO"); f != "" {
		b, err := os.ReadFile(f)
		if err != nil {
			t.Fatal(err)
		}
		if err := json.Unmarshal(b, &sc); err != nil {
			t.Fatal(err)
		}
	} else {
		seed, _ := strconv.ParseInt(os.Getenv("RV_SEED"), 10, 64)
		idx, _ := strconv.Atoi(os.Getenv("RV_IDX"))
		sc = sim.Generate(os.Getenv("RV_FAMILY"), seed, idx)
	}
	writeJSON(out+".scenario.json", sc)
	wall0 := time.Now()
	if pf := os.Getenv("RV_CPUPROF"); pf != "" {
		f, _ := os.Create(pf)
		pprof.StartCPUProfile(f)
	}
	synctest.Test(t, func(t *testing.T) {
		w := sim.NewWorld(out + ".events.jsonl")
		finish := func(rn *sim.Runner, fatal []string) {
			w.Flush()
			chunks, nev := w.Chunks()
			res := oracle.CheckChunks(chunks)
			o := output{Scenario: sc, Result: res, Events: nev, VirtMs: w.Now() / 1e6, WallMs: time.Since(wall0).Milliseconds(), Fatal: fatal}
			if rn != nil {
				for _, nd := range rn.C.Nodes {
					o.Taken = append(o.Taken, nd.FaultsTaken()...)
				}
			}
			writeJSON(out+".result.json", o)
			if os.Getenv("RV_KEEP_EVENTS") == "" && len(res.Violations) == 0 {
				os.Remove(out + ".events.jsonl")
			}
			fmt.Printf("exec family=%s seed=%d idx=%d events=%d violations=%d virt=%dms wall=%dms\n", sc.Family, sc.Seed, sc.Idx, nev, len(res.Violations), o.VirtMs, o.WallMs)
			for _, v := range res.Violations {
				fmt.Printf("  %s %s: %s\n", v.Prop, v.Sig, v.Msg)
			}
			pprof.StopCPUProfile()
			// leave the bubble by ending the process: goroutines of stranded
			// futures or hung instances must not turn into a synctest deadlock
			os.Exit(0)
		}
		sim.OnFatal = func(c *sim.Cluster, msg string) { finish(nil, []string{msg}) }
		rn := sim.Run(sc, w)
		rn.ShutdownAll()
		finish(rn, rn.C.Fatal)
	})
}

// TestReplay re-runs the offline oracles on a saved event log.
func TestReplay(t *testing.T) {
	path := os.Getenv("RV_REPLAY")
	if path == "" {
		t.Skip("RV_REPLAY not set")
	}
	evs, err := sim.ReadEvents(path)
	if err != nil {
		t.Fatal(err)
	}
	res := oracle.Check(evs)
	b, _ := json.MarshalIndent(res, "", " ")
	fmt.Println(string(b))
	if out := os.Getenv("RV_OUT"); out != "" {
		writeJSON(out+".result.json", output{Result: res, Events: len(evs)})
	}
}
