package table

import (
	"errors"
	"fmt"
	"math/rand"
	"testing"

	"github.com/hashicorp/raft"
)

// ---- C19: LogCache(store) must be indistinguishable from store alone ----

// fstore is a plain log store with optional failure injection.
type fstore struct {
	logs               map[uint64]*raft.Log
	failKind           string
	failAt             int
	nStore, nDel, nGet int
}

func newFstore(kind string, at int) *fstore {
	return &fstore{logs: map[uint64]*raft.Log{}, failKind: kind, failAt: at}
}

var errInj = errors.New("injected")

func (f *fstore) bounds() (lo, hi uint64) {
	for k := range f.logs {
		if lo == 0 || k < lo {
			lo = k
		}
		if k > hi {
			hi = k
		}
	}
	return
}
func (f *fstore) FirstIndex() (uint64, error) { lo, _ := f.bounds(); return lo, nil }
func (f *fstore) LastIndex() (uint64, error)  { _, hi := f.bounds(); return hi, nil }
func (f *fstore) GetLog(i uint64, out *raft.Log) error {
	f.nGet++
	if f.failKind == "get" && f.nGet == f.failAt {
		return errInj
	}
	l, ok := f.logs[i]
	if !ok {
		return raft.ErrLogNotFound
	}
	*out = *l
	return nil
}
func (f *fstore) StoreLog(l *raft.Log) error { return f.StoreLogs([]*raft.Log{l}) }
func (f *fstore) StoreLogs(ls []*raft.Log) error {
	f.nStore++
	if f.failKind == "store" && f.nStore == f.failAt {
		return errInj
	}
	if f.failKind == "storepartial" && f.nStore == f.failAt {
		// the backend persists the first entry of the batch and then fails
		c := *ls[0]
		f.logs[c.Index] = &c
		return errInj
	}
	for _, l := range ls {
		c := *l
		f.logs[l.Index] = &c
	}
	return nil
}
func (f *fstore) DeleteRange(min, max uint64) error {
	f.nDel++
	if f.failKind == "del" && f.nDel == f.failAt {
		return errInj
	}
	if f.failKind == "delpartial" && f.nDel == f.failAt {
		// the backend removes the lower half of the range and then fails
		for k := range f.logs {
			if k >= min && k <= (min+max)/2 {
				delete(f.logs, k)
			}
		}
		return errInj
	}
	if f.failKind == "storepartial" {
		// handled in StoreLogs
	}
	for k := range f.logs {
		if k >= min && k <= max {
			delete(f.logs, k)
		}
	}
	return nil
}

type lop struct {
	kind byte // 's' store, 'd' delete, 'g' get, 'f' first, 'l' last
	idx  []uint64
	a, b uint64
}

func (o lop) String() string {
	switch o.kind {
	case 's':
		return fmt.Sprintf("Store%v", o.idx)
	case 'd':
		return fmt.Sprintf("Del(%d,%d)", o.a, o.b)
	case 'g':
		return fmt.Sprintf("Get(%d)", o.a)
	case 'f':
		return "First"
	}
	return "Last"
}

func alphabet(maxIdx uint64) []lop {
	var ops []lop
	for i := uint64(1); i <= maxIdx; i++ {
		ops = append(ops, lop{kind: 's', idx: []uint64{i}})
		if i+1 <= maxIdx {
			ops = append(ops, lop{kind: 's', idx: []uint64{i, i + 1}})
		}
		if i+2 <= maxIdx {
			ops = append(ops, lop{kind: 's', idx: []uint64{i, i + 2}}, lop{kind: 's', idx: []uint64{i, i + 1, i + 2}})
		}
	}
	for a := uint64(1); a <= maxIdx; a++ {
		for b := a; b <= maxIdx; b++ {
			ops = append(ops, lop{kind: 'd', a: a, b: b})
		}
	}
	for i := uint64(0); i <= maxIdx+1; i++ {
		ops = append(ops, lop{kind: 'g', a: i})
	}
	ops = append(ops, lop{kind: 'f'}, lop{kind: 'l'})
	return ops
}

type storeMaker func() (name string, a, b raft.LogStore)

// runSeq runs the sequence on LogCache(backend) and on backend' and reports
// the first difference ("" if none).
func runSeq(seq []lop, capacity int, mk storeMaker, maxIdx uint64) (string, int) {
	_, backA, backB := mk()
	cache, err := raft.NewLogCache(capacity, backA)
	if err != nil {
		return "NewLogCache: " + err.Error(), 0
	}
	stamp := 0
	gets := 0
	apply := func(s raft.LogStore, o lop, st int) (string, uint64, error) {
		switch o.kind {
		case 's':
			var ls []*raft.Log
			for k, i := range o.idx {
				ls = append(ls, &raft.Log{Index: i, Term: uint64(st), Type: raft.LogCommand, Data: []byte(fmt.Sprintf("w%d.%d@%d", st, k, i))})
			}
			return "", 0, s.StoreLogs(ls)
		case 'd':
			return "", 0, s.DeleteRange(o.a, o.b)
		case 'g':
			var l raft.Log
			err := s.GetLog(o.a, &l)
			if err != nil {
				return "", 0, err
			}
			return fmt.Sprintf("%d/%d/%d/%s", l.Index, l.Term, l.Type, l.Data), 0, nil
		case 'f':
			v, err := s.FirstIndex()
			return "", v, err
		}
		v, err := s.LastIndex()
		return "", v, err
	}
	for step, o := range seq {
		stamp++
		sa, va, ea := apply(cache, o, stamp)
		sb, vb, eb := apply(backB, o, stamp)
		if o.kind == 'g' {
			gets++
		}
		if (ea != nil) != (eb != nil) || sa != sb || va != vb {
			return fmt.Sprintf("step %d %v: cache -> (%q,%d,%v), store alone -> (%q,%d,%v)", step, o, sa, va, ea, sb, vb, eb), gets
		}
	}
	// read everything back through both
	for i := uint64(0); i <= maxIdx+1; i++ {
		sa, _, ea := apply(cache, lop{kind: 'g', a: i}, 0)
		sb, _, eb := apply(backB, lop{kind: 'g', a: i}, 0)
		if (ea != nil) != (eb != nil) || sa != sb {
			return fmt.Sprintf("read-back Get(%d): cache -> (%q,%v), store alone -> (%q,%v)", i, sa, ea, sb, eb), gets
		}
	}
	for _, k := range []byte{'f', 'l'} {
		_, va, ea := apply(cache, lop{kind: k}, 0)
		_, vb, eb := apply(backB, lop{kind: k}, 0)
		if va != vb || (ea != nil) != (eb != nil) {
			return fmt.Sprintf("read-back %c: cache -> %d, store alone -> %d", k, va, vb), gets
		}
	}
	return "", gets
}

func makers() []storeMaker {
	ms := []storeMaker{
		func() (string, raft.LogStore, raft.LogStore) { return "plain", newFstore("", 0), newFstore("", 0) },
		func() (string, raft.LogStore, raft.LogStore) {
			return "inmem", raft.NewInmemStore(), raft.NewInmemStore()
		},
	}
	// Read failures are not injected: a cache hit legitimately answers without
	// asking the backend, so "the n-th backend read fails" is not comparable.
	// "delpartial": DeleteRange removes part of the range and then fails. A StoreLogs
	// that persists part of a batch and then fails is NOT injected: one store call
	// is assumed atomic (the same assumption as for the SIM disks).
	for _, k := range []string{"store", "del", "delpartial"} {
		for at := 1; at <= 2; at++ {
			k, at := k, at
			ms = append(ms, func() (string, raft.LogStore, raft.LogStore) {
				return fmt.Sprintf("fail-%s-%d", k, at), newFstore(k, at), newFstore(k, at)
			})
		}
	}
	return ms
}

func seqString(seq []lop) string {
	s := ""
	for _, o := range seq {
		s += o.String() + " "
	}
	return s
}

func TestC19(t *testing.T) {
	col := NewCollector("C19")
	defer col.Write()
	shard, shards := Shard()
	const maxIdx = 6
	alpha := alphabet(maxIdx)
	maxLen := 3
	if Thorough() {
		maxLen = 4
	}
	ms := makers()
	// exhaustive short sequences, sharded by first op
	var rec func(seq []lop)
	n := 0
	rec = func(seq []lop) {
		if len(seq) > 0 {
			stores := 0
			for _, o := range seq {
				if o.kind == 's' {
					stores++
				}
			}
			for cp := 1; cp <= 3; cp++ {
				for mi, mk := range ms {
					if mi >= 2 && (len(seq) == maxLen && maxLen == 4) && mi%2 == 1 {
						continue // thin out failure variants on the deepest level
					}
					diff, _ := runSeq(seq, cp, mk, maxIdx)
					n++
					if diff != "" {
						name, _, _ := mk()
						col.Violate("cache-differs-from-store", "capacity %d, backend %s, sequence [%s]: %s", cp, name, seqString(seq), diff)
					}
				}
			}
			if stores > 0 && len(seq) > 1 {
				col.Distinct(seqString(seq))
			}
			if n%50000 == 1 {
				col.Sample(map[string]interface{}{"sequence": seqString(seq), "capacities": "1..3", "backends": len(ms)})
			}
		}
		if len(seq) == maxLen {
			return
		}
		for i, o := range alpha {
			if len(seq) == 0 && i%shards != shard {
				continue
			}
			rec(append(seq, o))
		}
	}
	rec(nil)
	col.Cov("exhaustive-sequences-x-capacity-x-backend", n)
	col.Eval(n)
	// random long sequences
	total := 20000
	if Thorough() {
		total = 2000000
	}
	per := total / shards
	rng := rand.New(rand.NewSource(Seed()*7919 + int64(shard)))
	big := alphabet(40)
	for k := 0; k < per; k++ {
		l := 20 + rng.Intn(181)
		seq := make([]lop, l)
		for i := range seq {
			seq[i] = big[rng.Intn(len(big))]
		}
		cp := 1 + rng.Intn(16)
		mk := ms[rng.Intn(len(ms))]
		diff, gets := runSeq(seq, cp, mk, 40)
		if diff != "" {
			name, _, _ := mk()
			col.Violate("cache-differs-from-store", "capacity %d, backend %s, random sequence of %d ops (seed %d shard %d case %d): %s", cp, name, l, Seed(), shard, k, diff)
		}
		if gets > 0 {
			col.Distinct(fmt.Sprintf("r%d.%d", shard, k))
		}
		if k == 0 {
			col.Sample(map[string]interface{}{"random_sequence_prefix": seqString(seq[:8]), "length": l, "capacity": cp})
		}
	}
	col.Cov("random-sequences", per)
	col.Eval(per)
}
