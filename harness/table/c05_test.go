package table

import (
	"fmt"
	"math/rand"
	"testing"

	"github.com/hashicorp/raft"
)

// ---- C05: commitment tracker vs. brute-force reference ----

type refCommit struct {
	match  map[string]uint64 // current voters only
	commit uint64
	start  uint64
}

func voters(c raft.Configuration) []string {
	var v []string
	for _, s := range c.Servers {
		if s.Suffrage == raft.Voter {
			v = append(v, string(s.ID))
		}
	}
	return v
}

func newRef(c raft.Configuration, start uint64) *refCommit {
	r := &refCommit{match: map[string]uint64{}, start: start}
	for _, v := range voters(c) {
		r.match[v] = 0
	}
	return r
}

// recompute: the largest n >= start stored by a strict majority of the
// current voters; the commit index is the running maximum.
func (r *refCommit) recompute() bool {
	var top uint64
	for _, m := range r.match {
		if m > top {
			top = m
		}
	}
	for n := top; n >= 1; n-- {
		cnt := 0
		for _, m := range r.match {
			if m >= n {
				cnt++
			}
		}
		if 2*cnt > len(r.match) {
			if n > r.commit && n >= r.start {
				r.commit = n
				return true
			}
			return false
		}
	}
	return false
}

func (r *refCommit) doMatch(id string, idx uint64) bool {
	if prev, ok := r.match[id]; ok && idx > prev {
		r.match[id] = idx
		return r.recompute()
	}
	return false
}

func (r *refCommit) setCfg(c raft.Configuration) bool {
	old := r.match
	r.match = map[string]uint64{}
	for _, v := range voters(c) {
		r.match[v] = old[v]
	}
	if len(r.match) == 0 {
		return false
	}
	return r.recompute()
}

type ccall struct {
	isCfg bool
	id    string
	idx   uint64
	cfg   int
}

func allConfigs(n int) []raft.Configuration {
	var out []raft.Configuration
	suff := []int{-1, int(raft.Voter), int(raft.Nonvoter), int(raft.Staging)}
	var rec func(i int, cur []raft.Server)
	rec = func(i int, cur []raft.Server) {
		if i == n {
			nv := 0
			for _, s := range cur {
				if s.Suffrage == raft.Voter {
					nv++
				}
			}
			if nv > 0 {
				out = append(out, raft.Configuration{Servers: append([]raft.Server(nil), cur...)})
			}
			return
		}
		for _, sf := range suff {
			if sf < 0 {
				rec(i+1, cur)
			} else {
				id := fmt.Sprintf("s%d", i)
				rec(i+1, append(cur, raft.Server{ID: raft.ServerID(id), Address: raft.ServerAddress(id), Suffrage: raft.ServerSuffrage(sf)}))
			}
		}
	}
	rec(0, nil)
	return out
}

func runCommit(col *Collector, cfgs []raft.Configuration, init int, start uint64, seq []ccall) {
	impl := raft.NewVerifCommitment(cfgs[init], start)
	ref := newRef(cfgs[init], start)
	impl.Notified()
	prev := uint64(0)
	for k, c := range seq {
		var adv bool
		if c.isCfg {
			impl.SetConfiguration(cfgs[c.cfg])
			adv = ref.setCfg(cfgs[c.cfg])
		} else {
			impl.Match(raft.ServerID(c.id), c.idx)
			adv = ref.doMatch(c.id, c.idx)
		}
		got := impl.GetCommitIndex()
		notified := impl.Notified()
		if got != ref.commit {
			col.Violate("commit-index-differs-from-reference", "initial %s start %d, calls %s: after call %d commit index is %d, a strict majority of current voters gives %d", sim(cfgs[init]), start, callsString(cfgs, seq), k, got, ref.commit)
			return
		}
		if got < prev {
			col.Violate("commit-index-decreased", "initial %s start %d, calls %s: commit index went from %d to %d at call %d", sim(cfgs[init]), start, callsString(cfgs, seq), prev, got, k)
			return
		}
		if notified != adv {
			col.Violate("commit-notification-mismatch", "initial %s start %d, calls %s: call %d notified=%v but commit index advanced=%v", sim(cfgs[init]), start, callsString(cfgs, seq), k, notified, adv)
			return
		}
		prev = got
	}
}

func sim(c raft.Configuration) string {
	s := ""
	for _, x := range c.Servers {
		s += fmt.Sprintf("%s:%d ", x.ID, x.Suffrage)
	}
	return "[" + s + "]"
}

func callsString(cfgs []raft.Configuration, seq []ccall) string {
	s := ""
	for _, c := range seq {
		if c.isCfg {
			s += "setConfiguration" + sim(cfgs[c.cfg]) + " "
		} else {
			s += fmt.Sprintf("match(%s,%d) ", c.id, c.idx)
		}
	}
	return s
}

func TestC05(t *testing.T) {
	col := NewCollector("C05")
	defer col.Write()
	shard, shards := Shard()
	cfgs := allConfigs(3)
	var calls []ccall
	for _, id := range []string{"s0", "s1", "s2", "zz"} {
		for idx := uint64(0); idx <= 3; idx++ {
			calls = append(calls, ccall{id: id, idx: idx})
		}
	}
	for i := range cfgs {
		calls = append(calls, ccall{isCfg: true, cfg: i})
	}
	maxLen := 3
	if Thorough() {
		maxLen = 4
	}
	n := 0
	job := 0
	for init := range cfgs {
		for start := uint64(1); start <= 3; start++ {
			job++
			if job%shards != shard {
				continue
			}
			var rec func(seq []ccall)
			rec = func(seq []ccall) {
				if len(seq) > 0 {
					runCommit(col, cfgs, init, start, seq)
					n++
					if n%200000 == 1 {
						col.Sample(map[string]interface{}{"initial": sim(cfgs[init]), "startIndex": start, "calls": callsString(cfgs, seq)})
					}
				}
				if len(seq) == maxLen {
					return
				}
				for _, c := range calls {
					rec(append(seq, c))
				}
			}
			rec(nil)
			col.Distinct(fmt.Sprintf("init%d/start%d", init, start))
		}
	}
	col.Cov("exhaustive-call-sequences", n)
	col.Eval(n)
	// random longer sequences over up to 7 servers
	total := 100000
	if Thorough() {
		total = 10000000
	}
	per := total / shards
	rng := rand.New(rand.NewSource(Seed()*104729 + int64(shard)))
	ids := []string{"s0", "s1", "s2", "s3", "s4", "s5", "s6", "zz"}
	randCfg := func() raft.Configuration {
		for {
			var c raft.Configuration
			nv := 0
			for _, id := range ids[:7] {
				switch rng.Intn(5) {
				case 0, 1:
					c.Servers = append(c.Servers, raft.Server{ID: raft.ServerID(id), Address: raft.ServerAddress(id), Suffrage: raft.Voter})
					nv++
				case 2:
					c.Servers = append(c.Servers, raft.Server{ID: raft.ServerID(id), Address: raft.ServerAddress(id), Suffrage: raft.Nonvoter})
				case 3:
					c.Servers = append(c.Servers, raft.Server{ID: raft.ServerID(id), Address: raft.ServerAddress(id), Suffrage: raft.Staging})
				}
			}
			if nv > 0 {
				return c
			}
		}
	}
	for k := 0; k < per; k++ {
		pool := []raft.Configuration{randCfg(), randCfg(), randCfg()}
		l := 1 + rng.Intn(30)
		seq := make([]ccall, l)
		for i := range seq {
			if rng.Intn(6) == 0 {
				seq[i] = ccall{isCfg: true, cfg: rng.Intn(3)}
			} else {
				seq[i] = ccall{id: ids[rng.Intn(len(ids))], idx: uint64(rng.Intn(21))}
			}
		}
		runCommit(col, pool, 0, uint64(1+rng.Intn(10)), seq)
		if k%1000 == 0 {
			col.Distinct(fmt.Sprintf("rand%d.%d", shard, k))
		}
	}
	col.Cov("random-call-sequences", per)
	col.Eval(per)
}
