package table

import (
	"fmt"
	"testing"

	"github.com/hashicorp/raft"
)

// ---- C11: compaction arithmetic ----

type recStore struct {
	first, last uint64
	dels        [][2]uint64
}

func (r *recStore) FirstIndex() (uint64, error)    { return r.first, nil }
func (r *recStore) LastIndex() (uint64, error)     { return r.last, nil }
func (r *recStore) GetLog(uint64, *raft.Log) error { return raft.ErrLogNotFound }
func (r *recStore) StoreLog(*raft.Log) error       { return nil }
func (r *recStore) StoreLogs([]*raft.Log) error    { return nil }
func (r *recStore) DeleteRange(min, max uint64) error {
	r.dels = append(r.dels, [2]uint64{min, max})
	return nil
}

func TestC11(t *testing.T) {
	col := NewCollector("C11")
	defer col.Write()
	shard, shards := Shard()
	const M = 8
	n := 0
	for first := uint64(0); first <= M; first++ {
		if int(first)%shards != shard%int(M+1) && shards > 1 {
			continue
		}
		for last := first; last <= M; last++ {
			if first == 0 && last != 0 {
				continue // empty log is (0,0)
			}
			for snap := uint64(0); snap <= M; snap++ {
				for trailing := uint64(0); trailing <= M; trailing++ {
					// lastLogIdx is raft's view of the last log index; the true one and a stale one are both tried
					for lastLogIdx := uint64(0); lastLogIdx <= M; lastLogIdx++ {
						st := &recStore{first: first, last: last}
						err := raft.VerifCompactLogsWithTrailing(st, snap, lastLogIdx, trailing)
						n++
						desc := fmt.Sprintf("log %d..%d, snapshot index %d, last log index %d, TrailingLogs %d", first, last, snap, lastLogIdx, trailing)
						if err != nil {
							col.Violate("compaction-error", "%s: %v", desc, err)
							continue
						}
						if len(st.dels) > 1 {
							col.Violate("several-deletes", "%s: %v", desc, st.dels)
							continue
						}
						// reference: delete [first, min(snap, lastLogIdx-trailing)] when that range is non-empty
						var want *[2]uint64
						if lastLogIdx > trailing {
							max := snap
							if lastLogIdx-trailing < max {
								max = lastLogIdx - trailing
							}
							if first <= max {
								want = &[2]uint64{first, max}
							}
						}
						if want == nil && len(st.dels) != 0 {
							col.Violate("unexpected-delete", "%s: deleted %v, nothing may be deleted", desc, st.dels[0])
							continue
						}
						if want != nil && (len(st.dels) != 1 || st.dels[0] != *want) {
							col.Violate("wrong-delete-range", "%s: deleted %v, the rule gives %v", desc, st.dels, *want)
							continue
						}
						if len(st.dels) == 1 {
							d := st.dels[0]
							if d[1] > snap {
								col.Violate("deletes-past-snapshot", "%s: deleted up to %d", desc, d[1])
							}
							if lastLogIdx == last && first > 0 {
								have := last - first + 1
								remain := uint64(0)
								if last > d[1] {
									remain = last - d[1]
								}
								need := trailing
								if have < need {
									need = have
								}
								if remain < need {
									col.Violate("trailing-not-kept", "%s: %d entries remain, at least %d must", desc, remain, need)
								}
							}
							col.Distinct(fmt.Sprintf("%d/%d/%d/%d/%d", first, last, snap, trailing, lastLogIdx))
						}
						if n%5000 == 1 {
							col.Sample(map[string]interface{}{"case": desc, "deleted": st.dels})
						}
					}
				}
			}
		}
	}
	col.Cov("compaction-cases", n)
	col.Eval(n)
}
