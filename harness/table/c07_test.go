package table

import (
	"fmt"
	"reflect"
	"testing"

	"github.com/hashicorp/raft"
)

// ---- C07: nextConfiguration vs. the stated rules ----

func expectNext(cur raft.Configuration, ch raft.VerifChange) raft.Configuration {
	out := cur.Clone()
	find := func() int {
		for i, s := range out.Servers {
			if s.ID == ch.ServerID {
				return i
			}
		}
		return -1
	}
	i := find()
	switch ch.Command {
	case raft.AddVoter:
		if i < 0 {
			out.Servers = append(out.Servers, raft.Server{Suffrage: raft.Voter, ID: ch.ServerID, Address: ch.ServerAddress})
		} else {
			out.Servers[i].Suffrage = raft.Voter
			out.Servers[i].Address = ch.ServerAddress
		}
	case raft.AddNonvoter:
		if i < 0 {
			out.Servers = append(out.Servers, raft.Server{Suffrage: raft.Nonvoter, ID: ch.ServerID, Address: ch.ServerAddress})
		} else {
			// already in the cluster: only the address is updated, a voter keeps its vote
			out.Servers[i].Address = ch.ServerAddress
		}
	case raft.DemoteVoter:
		if i >= 0 {
			out.Servers[i].Suffrage = raft.Nonvoter
		}
	case raft.RemoveServer:
		if i >= 0 {
			out.Servers = append(out.Servers[:i], out.Servers[i+1:]...)
		}
	case raft.Promote:
		if i >= 0 && out.Servers[i].Suffrage == raft.Staging {
			out.Servers[i].Suffrage = raft.Voter
		}
	}
	return out
}

func voterSet(c raft.Configuration) map[raft.ServerID]bool {
	m := map[raft.ServerID]bool{}
	for _, s := range c.Servers {
		if s.Suffrage == raft.Voter {
			m[s.ID] = true
		}
	}
	return m
}

func validCfg(c raft.Configuration) bool {
	ids, addrs := map[raft.ServerID]bool{}, map[raft.ServerAddress]bool{}
	nv := 0
	for _, s := range c.Servers {
		if s.ID == "" || s.Address == "" || ids[s.ID] || addrs[s.Address] {
			return false
		}
		ids[s.ID], addrs[s.Address] = true, true
		if s.Suffrage == raft.Voter {
			nv++
		}
	}
	return nv > 0
}

func TestC07(t *testing.T) {
	col := NewCollector("C07")
	defer col.Write()
	shard, shards := Shard()
	n := 3
	if Thorough() {
		n = 4
	}
	cfgs := allConfigs(n)
	cmds := []raft.ConfigurationChangeCommand{raft.AddVoter, raft.AddNonvoter, raft.DemoteVoter, raft.RemoveServer, raft.Promote}
	count := 0
	for ci, cur := range cfgs {
		if ci%shards != shard {
			continue
		}
		const curIndex = 7
		for _, cmd := range cmds {
			for tgt := 0; tgt <= n; tgt++ { // tgt == n: a new id
				id := raft.ServerID(fmt.Sprintf("s%d", tgt))
				addrs := []raft.ServerAddress{raft.ServerAddress(id), "s0", "s1", "brand-new", ""}
				for _, addr := range addrs {
					for _, prev := range []uint64{0, curIndex, curIndex - 1, curIndex + 1} {
						ch := raft.VerifChange{Command: cmd, ServerID: id, ServerAddress: addr, PrevIndex: prev}
						before := cur.Clone()
						got, err := raft.VerifNextConfiguration(cur, curIndex, ch)
						count++
						desc := fmt.Sprintf("current %s index %d, change %v id=%s addr=%q prev=%d", sim(cur), curIndex, cmd, id, addr, prev)
						if !reflect.DeepEqual(before, cur) {
							col.Violate("input-configuration-mutated", "%s: the caller's configuration changed to %s", desc, sim(cur))
							cur = before.Clone()
						}
						if prev != 0 && prev != curIndex {
							if err == nil {
								col.Violate("stale-previndex-accepted", "%s: accepted with result %s", desc, sim(got))
							} else if len(got.Servers) != 0 {
								col.Violate("error-with-effect", "%s: failed (%v) but returned %s", desc, err, sim(got))
							}
							continue
						}
						want := expectNext(before, ch)
						if !validCfg(want) {
							if err == nil {
								col.Violate("invalid-configuration-accepted", "%s: produced %s which has no voter or duplicate ids/addresses", desc, sim(got))
							} else if len(got.Servers) != 0 {
								col.Violate("error-with-effect", "%s: failed (%v) but returned %s", desc, err, sim(got))
							}
							continue
						}
						if err != nil {
							col.Violate("valid-change-rejected", "%s: rejected (%v) although the rules give %s", desc, err, sim(want))
							continue
						}
						if !reflect.DeepEqual(got, want) {
							col.Violate("result-differs-from-rules", "%s: got %s, the stated rules give %s", desc, sim(got), sim(want))
						}
						if !validCfg(got) {
							col.Violate("invalid-configuration-produced", "%s: got %s", desc, sim(got))
						}
						ov, nv := voterSet(before), voterSet(got)
						diff := 0
						for k := range ov {
							if !nv[k] {
								diff++
							}
						}
						for k := range nv {
							if !ov[k] {
								diff++
							}
						}
						if diff > 1 {
							col.Violate("more-than-one-voter-changed", "%s: voter sets differ by %d members (%s)", desc, diff, sim(got))
						}
						// aliasing: mutating the result must not reach the input
						if len(got.Servers) > 0 {
							got.Servers[0].Address = "mutated"
							if !reflect.DeepEqual(before, cur) {
								col.Violate("result-aliases-input", "%s: changing the result changed the input", desc)
								cur = before.Clone()
							}
						}
						if diff == 1 {
							col.Distinct(fmt.Sprintf("%d/%v/%d", ci, cmd, tgt))
						}
						if count%20000 == 1 {
							col.Sample(map[string]interface{}{"case": desc, "result": sim(want)})
						}
					}
				}
			}
		}
	}
	col.Cov("change-requests", count)
	col.Eval(count)
}
