// Package table holds the TABLE engine: exhaustive / differential drivers of
// the pure components, each compared with a few-line reference written from
// the property statement.
package table

import (
	"encoding/json"
	"fmt"
	"os"
	"strconv"
)

type Violation struct {
	Prop string `json:"prop"`
	Sig  string `json:"sig"`
	Msg  string `json:"msg"`
	Seq  uint64 `json:"seq"`
}

type Result struct {
	Violations []Violation    `json:"violations"`
	Cov        map[string]int `json:"cov"`
}

type Output struct {
	Result      *Result       `json:"result"`
	Evaluations int           `json:"evaluations"`
	Distinct    []string      `json:"distinct"`
	Samples     []interface{} `json:"samples"`
}

type Collector struct {
	prop     string
	out      Output
	vc       map[string]int
	distinct map[string]bool
}

func NewCollector(prop string) *Collector {
	return &Collector{prop: prop, out: Output{Result: &Result{Cov: map[string]int{}}}, vc: map[string]int{}, distinct: map[string]bool{}}
}

func (c *Collector) Violate(sig, f string, a ...interface{}) {
	c.vc[sig]++
	if c.vc[sig] > 3 {
		return
	}
	c.out.Result.Violations = append(c.out.Result.Violations, Violation{Prop: c.prop, Sig: sig, Msg: fmt.Sprintf(f, a...)})
}

func (c *Collector) Cov(k string, n int) { c.out.Result.Cov[k] += n }
func (c *Collector) Eval(n int)          { c.out.Evaluations += n }

// Distinct records a non-trivial case class; classes are capped so the
// result file stays small, the count is exact up to the cap.
func (c *Collector) Distinct(k string) {
	if len(c.distinct) < 20000 {
		c.distinct[k] = true
	}
}

func (c *Collector) Sample(v interface{}) {
	if len(c.out.Samples) < 4 {
		c.out.Samples = append(c.out.Samples, v)
	}
}

func (c *Collector) Write() {
	for k := range c.distinct {
		c.out.Distinct = append(c.out.Distinct, k)
	}
	out := os.Getenv("RV_OUT")
	if out == "" {
		b, _ := json.MarshalIndent(c.out.Result, "", " ")
		fmt.Println(string(b))
		fmt.Println("evaluations", c.out.Evaluations, "distinct", len(c.out.Distinct))
		return
	}
	b, _ := json.Marshal(c.out)
	os.WriteFile(out+".result.json", b, 0o644)
}

func envInt(k string, def int) int {
	if v, err := strconv.Atoi(os.Getenv(k)); err == nil {
		return v
	}
	return def
}

// Shard returns (shard, shards) for this child.
func Shard() (int, int) { return envInt("RV_SHARD", 0), max(envInt("RV_SHARDS", 1), 1) }

func Thorough() bool { return os.Getenv("RV_TIER") == "thorough" }

func Seed() int64 { return int64(envInt("RV_SEED", 1)) }

// Merge folds another collector's findings into c.
func (c *Collector) Merge(o *Collector) {
	for _, v := range o.out.Result.Violations {
		c.vc[v.Sig]++
		if c.vc[v.Sig] <= 3 {
			c.out.Result.Violations = append(c.out.Result.Violations, v)
		}
	}
	for k, v := range o.out.Result.Cov {
		c.out.Result.Cov[k] += v
	}
	for k := range o.distinct {
		c.Distinct(k)
	}
	c.out.Evaluations += o.out.Evaluations
}

// CovGet returns a coverage counter.
func (c *Collector) CovGet(k string) int { return c.out.Result.Cov[k] }
