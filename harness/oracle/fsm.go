package oracle

import (
	"sort"

	"rv/sim"
)

func sortStrings(s []string) { sort.Strings(s) }

func visibleType(ty uint8) bool { return ty == LogCommand }

func (c *checker) fsm(e *sim.Ev) {
	key := instKey{e.S, e.Ep}
	st := c.getStream(key)
	s := c.server(e.S)
	switch e.K {
	case "f.apply":
		i, term, payload := e.A, e.B, e.X
		c.cov("fsm-apply")
		c.appliedP[payload] = true
		en := sim.Ent{I: i, T: term, Ty: uint8(e.D), P: payload}
		// C02.1 agreement
		c.addG(i, en, e.Seq, "apply on "+key.String(), "C02")
		// C02.2 order
		if i <= st.last {
			c.violate("C02", "apply-not-increasing", e.Seq, "FSM of %s was handed index %d after index %d", key, i, st.last)
		} else if st.applied > 0 || st.restores > 0 {
			c.applyGaps = append(c.applyGaps, gapRec{key: key, i: st.last, j: i, seq: e.Seq})
		} else {
			// first event of this incarnation's stream: nothing before it may be skipped
			c.applyGaps = append(c.applyGaps, gapRec{key: key, i: 0, j: i, seq: e.Seq})
		}
		// C08: at most once per stream
		if at, ok := st.payloadAt[payload]; ok && at != i {
			c.violate("C08", "payload-applied-twice", e.Seq, "FSM of %s applied command %q at index %d and again at %d", key, payload, at, i)
		}
		st.payloadAt[payload] = i
		st.prevOf[i] = e.Y
		st.last, st.lastCmd = i, i
		st.applied++
		st.afterRest = false
		// C02.4 only committed entries are applied
		ok, holders, tried, base := c.voterMajorityHolds(i, term, payload)
		if !ok {
			c.violate("C02", "uncommitted-entry-applied", e.Seq, "FSM of %s was handed index %d (term %d, %q) held only by %v: not on a voter majority under %d candidate configurations (base %d)", key, i, term, payload, keys(holders), tried, base)
		}
		if i <= s.burned && s.burned > 0 {
			c.ext.applyBelowBurned(c, s, key, i, e)
		}
	case "f.cfg":
		c.cov("fsm-storeconfig")
	case "f.batch":
		c.cov("fsm-batch")
	case "f.badtype":
		c.violate("C02", "bad-type-to-fsm", e.Seq, "FSM of %s was handed an entry of type %d at index %d", key, e.D, e.A)
	case "f.snap":
		c.cov("fsm-snapshot")
	case "f.restore":
		c.cov("fsm-restore")
		content := e.X
		// which snapshot was that? the newest complete one on this disk with this content
		var pick *snapRec
		for _, sn := range s.disk.snaps {
			if sn.done && sn.content == content && (pick == nil || snapOlder(pick, sn)) {
				pick = sn
			}
		}
		if pick == nil {
			c.violate("C02", "restore-unknown-content", e.Seq, "FSM of %s was restored with content %q that is not a complete snapshot on its disk", key, content)
			st.last = e.A
		} else {
			if pick.index < st.last && !c.ext.isUserContent(content) {
				c.violate("C02", "restore-rolls-back", e.Seq, "FSM of %s, already at index %d, was restored to the older snapshot at index %d", key, st.last, pick.index)
			}
			st.last = pick.index
			st.restIdx = pick.index
			if st.restores == 0 {
				st.firstRestIdx = pick.index
			}
		}
		st.restores++
		st.afterRest = true
		st.payloadAt = map[string]uint64{}
		rc := restoreCheck{key: key, content: content, seq: e.Seq}
		if pick != nil {
			rc.index, rc.term, rc.known = pick.index, pick.term, true
		}
		c.restoreChecks = append(c.restoreChecks, rc)
		c.ext.restore(c, s, key, pick, e)
	case "f.restore.bad":
		c.violate("C02", "restore-garbage", e.Seq, "FSM of %s was handed undecodable snapshot content %q", key, e.X)
	}
}

// canonical states ---------------------------------------------------------

type canonPt struct {
	idx uint64
	st  sim.FSMState
}

// canon is the FSM state implied by the agreed history: the fold of G's
// commands in index order, re-based at every user restore (burned index).
type canon struct{ pts []canonPt }

// stateAt returns the canonical FSM state after the agreed history up to and
// including index S.
func (cn *canon) stateAt(S uint64) sim.FSMState {
	k := sort.Search(len(cn.pts), func(i int) bool { return cn.pts[i].idx > S })
	if k == 0 {
		return sim.FSMState{}
	}
	return cn.pts[k-1].st.Clone()
}

func (c *checker) buildCanon() *canon {
	type item struct {
		idx  uint64
		base *userRestore
	}
	var items []item
	for i, g := range c.G {
		if g.ty == LogCommand {
			items = append(items, item{idx: i})
		}
	}
	for k := range c.userRestores {
		// A user restore is part of the agreed history only if the index it
		// burned stayed a hole: when the restoring leader lost its leadership
		// before replicating the restore, the rest of the cluster commits an
		// ordinary entry at that index and the restored state is abandoned.
		if !c.restoreAdopted(c.userRestores[k]) {
			continue
		}
		items = append(items, item{idx: c.userRestores[k].burned, base: &c.userRestores[k]})
	}
	sort.Slice(items, func(i, j int) bool { return items[i].idx < items[j].idx })
	cn := &canon{}
	var st sim.FSMState
	for _, it := range items {
		if it.base != nil {
			st, _ = sim.DecodeState(it.base.content)
		} else {
			g := c.G[it.idx]
			st.Step(it.idx, g.term, g.payload)
		}
		cn.pts = append(cn.pts, canonPt{it.idx, st.Clone()})
	}
	return cn
}

// finishG: C07 — successive configurations of the agreed history differ by at
// most one voting member and always keep a voter.
func (c *checker) finishG() {
	var idx []uint64
	for i, g := range c.G {
		if g.ty == LogConfiguration {
			idx = append(idx, i)
		}
	}
	sort.Slice(idx, func(i, j int) bool { return idx[i] < idx[j] })
	for k, i := range idx {
		cur := ParseCfg(c.G[i].payload)
		if len(cur.Voters()) == 0 {
			c.violate("C07", "committed-config-without-voter", c.G[i].seq, "configuration committed at index %d has no voter: %s", i, c.G[i].payload)
		}
		seenID, seenAddr := map[string]bool{}, map[string]bool{}
		for _, sv := range cur {
			if seenID[sv.ID] || seenAddr[sv.Addr] {
				c.violate("C07", "committed-config-duplicate", c.G[i].seq, "configuration committed at index %d repeats an id or address: %s", i, c.G[i].payload)
			}
			seenID[sv.ID], seenAddr[sv.Addr] = true, true
		}
		if k == 0 {
			continue
		}
		prev := ParseCfg(c.G[idx[k-1]].payload)
		pv, cv := map[string]bool{}, map[string]bool{}
		for _, v := range prev.Voters() {
			pv[v] = true
		}
		for _, v := range cur.Voters() {
			cv[v] = true
		}
		d := 0
		for v := range pv {
			if !cv[v] {
				d++
			}
		}
		for v := range cv {
			if !pv[v] {
				d++
			}
		}
		c.cov("committed-config-pair-checked")
		if d > 1 {
			c.violate("C07", "committed-configs-differ-by-more-than-one-voter", c.G[i].seq, "configurations committed at index %d (%s) and %d (%s) differ by %d voting members", idx[k-1], c.G[idx[k-1]].payload, i, c.G[i].payload, d)
		}
	}
}

func (c *checker) finishFSM() {
	// C02.2 no skip: between two consecutive indexes handed to one FSM there is
	// no FSM-visible entry of the agreed history.
	var vis []uint64
	for i, g := range c.G {
		if visibleType(g.ty) {
			vis = append(vis, i)
		}
	}
	sort.Slice(vis, func(i, j int) bool { return vis[i] < vis[j] })
	for _, g := range c.applyGaps {
		k := sort.Search(len(vis), func(i int) bool { return vis[i] > g.i })
		if k < len(vis) && vis[k] < g.j {
			if g.i == 0 && c.firstCoveredByStart(g.key, vis[k]) {
				continue
			}
			c.violate("C02", "apply-skipped", g.seq, "FSM of %s went from index %d to %d, skipping committed command at index %d", g.key, g.i, g.j, vis[k])
		}
	}
	cn := c.buildCanon()
	c.finishRestores(cn)
	// C11 snapshot fidelity / C02.3 restore content
	for _, sc := range c.snapsPending {
		c.cov("snapshot-fidelity-checked")
		if c.isUserRestoreSnap(sc) {
			continue
		}
		if g := c.G[sc.index]; g != nil && g.term != sc.term {
			c.violate("C11", "snapshot-wrong-term", sc.seq, "snapshot on %s stamped (index %d, term %d) but the committed entry at that index has term %d", sc.key, sc.index, sc.term, g.term)
		}
		want := cn.stateAt(sc.index)
		got, err := sim.DecodeState(sc.content)
		if err != nil {
			continue
		}
		if got.Hash != want.Hash || got.Cnt != want.Cnt {
			c.violate("C11", "snapshot-wrong-content", sc.seq, "snapshot on %s at index %d holds FSM state (cnt %d, last %d, hash %x) but the agreed history up to %d gives (cnt %d, last %d, hash %x)", sc.key, sc.index, got.Cnt, got.Last, got.Hash, sc.index, want.Cnt, want.Last, want.Hash)
		}
		// configuration: latest configuration entry at or below index in G
		var ci uint64
		var cc string
		for i, g := range c.G {
			if g.ty == LogConfiguration && i <= sc.index && i > ci {
				ci, cc = i, g.payload
			}
		}
		if ci > 0 && sc.cfgIdx <= sc.index && ci > sc.cfgIdx {
			c.violate("C11", "snapshot-stale-configuration", sc.seq, "snapshot on %s at index %d carries configuration index %d (%s) but configuration %d (%s) was committed at or below it", sc.key, sc.index, sc.cfgIdx, sc.cfg, ci, cc)
		}
		if ci > 0 && ci == sc.cfgIdx && cc != sc.cfg {
			c.violate("C11", "snapshot-wrong-configuration", sc.seq, "snapshot on %s at index %d carries configuration %s for index %d; committed is %s", sc.key, sc.index, sc.cfg, ci, cc)
		}
	}
}

// C02.3: a restore (start-up, InstallSnapshot) leaves the FSM in exactly the state the agreed
// history produces up to the index the snapshot is stamped with - whoever wrote that snapshot.
func (c *checker) finishRestores(cn *canon) {
	for _, rc := range c.restoreChecks {
		if !rc.known || c.ext.isUserContent(rc.content) || c.isUserRestoreSnap(snapCheck{index: rc.index, content: rc.content}) {
			continue
		}
		got, err := sim.DecodeState(rc.content)
		if err != nil {
			continue
		}
		c.cov("restore-content-checked")
		want := cn.stateAt(rc.index)
		if got.Hash != want.Hash || got.Cnt != want.Cnt {
			c.violate("C02", "restore-wrong-content", rc.seq, "FSM of %s was restored from the snapshot stamped index %d (term %d) to state (cnt %d, last %d, hash %x) but the agreed history up to %d gives (cnt %d, last %d, hash %x)", rc.key, rc.index, rc.term, got.Cnt, got.Last, got.Hash, rc.index, want.Cnt, want.Last, want.Hash)
		}
	}
}

func (c *checker) isUserRestoreSnap(sc snapCheck) bool {
	for _, u := range c.userRestores {
		if u.burned == sc.index && u.content == sc.content {
			return true
		}
	}
	return false
}

// firstCoveredByStart: the stream of a fresh incarnation starts after whatever
// its start-up restore covered; if there was no restore event, nothing is covered.
func (c *checker) firstCoveredByStart(k instKey, idx uint64) bool { return false }

// restoreAdopted: did the cluster's agreed history go on from this user
// restore? The burned index stayed a hole and later entries were committed.
func (c *checker) restoreAdopted(u userRestore) bool {
	if c.G[u.burned] != nil {
		return false
	}
	for i := range c.G {
		if i > u.burned {
			return true
		}
	}
	return false
}
