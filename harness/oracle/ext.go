package oracle

import (
	"fmt"

	"rv/sim"
)

// extState holds the monitors that need dedicated bookkeeping:
// C09 (VerifyLeader), C10 (crash recovery), C13 (lease), C14 (pre-vote),
// C20 (user restore).
type extState struct {
	anyUserRestoreAttempt bool
	userContents          map[string]bool

	// C20
	pendingRestore map[instKey]*restoreOp
	restoreEnters  map[instKey]int // restoreUserSnapshot entries per incarnation
	restores       []*restoreOp

	// C09
	verifies  map[uint64]*verifyOp // by call id
	verByInst map[instKey][]*verifyOp
	recent    map[instKey][]recentAck

	// C13
	leaseCuts []*leaseCut
	cutM      map[[2]string]bool
	reqCutM   map[[2]string]bool

	// C14
	pvIso  map[string]*pvIso
	pvDone []*pvIso
}

type restoreOp struct {
	call                                    *call
	key                                     instKey
	latest, committed, lastIndex, metaIndex uint64
	entered                                 bool
	enterSeq                                uint64
	done                                    bool
	burned                                  uint64
	content                                 string
	fsmSeen                                 bool
	assignedBefore                          uint64
}

type verifyOp struct {
	call         *call
	key          instKey
	term         uint64
	quorum       int
	voters       []string
	acks         map[string]bool // voters whose successful AE response was received in the window
	stale        map[string]bool // ... whose request had left before the call was made
	nonvoterAcks int
	started      bool
	startSeq     uint64
	preTerm      uint64
}

type leaseCut struct {
	key     instKey
	t       int64
	seq     uint64
	leaseMs int64
	downT   int64
	down    bool
	shape   string
	healSeq uint64
	goneT   int64 // when the incarnation crashed / was shut down
	void    bool
	rec     *leaderRec
}

type pvIso struct {
	name                  string
	t0, t1                int64
	seq0                  uint64
	termAt                uint64
	wasFollowerWithLeader bool
	healed                bool
	maxTermAfterSettle    uint64
	bumps                 int
	leaderAtHeal          string
	termAtHeal            uint64
	clusterTermAtHeal     uint64
	eligible, checked     bool
}

func (x *extState) init() {
	x.userContents = map[string]bool{}
	x.pendingRestore = map[instKey]*restoreOp{}
	x.restoreEnters = map[instKey]int{}
	x.verifies = map[uint64]*verifyOp{}
	x.verByInst = map[instKey][]*verifyOp{}
	x.cutM = map[[2]string]bool{}
	x.reqCutM = map[[2]string]bool{}
	x.recent = map[instKey][]recentAck{}
	x.pvIso = map[string]*pvIso{}
}

func (x *extState) isUserContent(content string) bool { return x.userContents[content] }

// gone is called when an incarnation crashes or is shut down.
func (x *extState) gone(name string, t int64) {
	for _, lc := range x.leaseCuts {
		if lc.key.s == name && lc.goneT == 0 {
			lc.goneT = t
		}
	}
}

// ---------- C10: crash recovery ----------

// startImage remembers what the durable image looks like when a new
// incarnation is about to be created from it.
func (c *checker) startImage(s *server, e *sim.Ev) {
	s.resetNotes()
	s.state = Follower
	s.startTerm, s.startMaxTerm = s.disk.kvi["CurrentTerm"], s.maxTerm
	// freeze what checkStarted compares with: the new incarnation is live (it may install a
	// snapshot or append entries) before the harness gets to read what it reports
	d := s.disk
	im := startImg{}
	_, im.last = d.bounds()
	im.ci, im.lc = d.latestLogCfg()
	if sn := d.newestUsable(); sn != nil {
		im.hasSnap, im.snapIdx, im.snapCfg, im.snapCfgIdx = true, sn.index, sn.cfg, sn.cfgIdx
		if sn.index > im.last {
			im.last = sn.index
		}
	}
	s.img = im
}

type startImg struct {
	last                uint64
	ci                  uint64
	lc                  string
	hasSnap             bool
	snapIdx, snapCfgIdx uint64
	snapCfg             string
}

// checkStarted compares what the new incarnation reports with the durable image.
func (c *checker) checkStarted(s *server, e *sim.Ev) {
	d := s.disk
	key := instKey{e.S, e.Ep}
	term, last, cfg := e.A, e.B, e.X
	c.cov("restart-checked")
	// The new incarnation is already live when the harness reads its term (its main loop and the
	// heartbeat fast path run before NewRaft returns to the caller): what it reports lies between
	// the term of the image it started from and its durable term now.
	if want := d.kvi["CurrentTerm"]; term < s.startTerm || term > want {
		c.violate("C10", "restart-wrong-term", e.Seq, "%s restarted reporting term %d but its durable term was %d when it started and is %d now", key, term, s.startTerm, want)
	}
	if term < s.startMaxTerm {
		sig := "term-decrease-across-restart"
		if s.termRaced {
			sig = "term-decrease-across-restart-after-concurrent-writers"
		}
		c.violate("C06", sig, e.Seq, "%s restarted with term %d after having reported term %d", key, term, s.startMaxTerm)
	}
	if term > s.maxTerm {
		s.maxTerm = term
	}
	// the snapshot position it works from names an entry of the committed history: a restart
	// must not resume with a last-entry term the cluster never had at that index
	ownRestore := false
	for _, u := range c.userRestores {
		if u.key.s == s.name && u.burned == e.E {
			// the snapshot this server wrote for its own user Restore sits at an index it burned; when
			// that restore was never replicated the cluster has something else there (S12), which is
			// not a matter of crash recovery
			ownRestore = true
		}
	}
	if si, stt := e.E, e.F; si > 0 && !ownRestore {
		c.cov("restart-snapshot-position-checked")
		// the committed history decides; the server's own log entry at that index only when nothing
		// is known committed there (it can be a stale entry lying under an installed snapshot, S3a)
		if g := c.G[si]; g != nil {
			if g.term != stt {
				c.violate("C10", "restart-wrong-snapshot-term", e.Seq, "%s restarted with snapshot position (%d, term %d) but the committed entry %d has term %d", key, si, stt, si, g.term)
			}
		} else if en, ok := d.logs[si]; ok && en.T != stt {
			c.violate("C10", "restart-wrong-snapshot-term", e.Seq, "%s restarted with snapshot position (%d, term %d) but its own log holds term %d at that index", key, si, stt, en.T)
		}
	}
	// compared with the image the incarnation was created from (frozen at Lstart)
	im := s.img
	if last < im.last {
		c.violate("C10", "restart-wrong-last-index", e.Seq, "%s restarted reporting last index %d but its durable log/snapshot reached %d when it started", key, last, im.last)
	}
	// configuration: latest configuration entry in the log above the snapshot, else the snapshot's
	ci, lc := im.ci, im.lc
	wantCfg := ""
	if im.hasSnap {
		wantCfg = im.snapCfg
		if ci <= im.snapIdx && ci <= im.snapCfgIdx {
			lc = ""
		}
	}
	if lc != "" {
		wantCfg = lc
	}
	if wantCfg != "" && cfg != wantCfg {
		// the new incarnation may already have accepted entries or installed a snapshot:
		// accept any configuration present in its log or newest snapshot now
		found := false
		for _, p := range d.cfgs {
			if p == cfg {
				found = true
			}
		}
		if sn := d.newestUsable(); sn != nil && sn.cfg == cfg {
			found = true
		}
		if !found {
			c.violate("C10", "restart-wrong-configuration", e.Seq, "%s restarted reporting configuration [%s] but its durable state said [%s] (log configuration index %d)", key, cfg, wantCfg, ci)
		}
	}
	// the configuration must also be the one the committed history had at that point: a
	// snapshot that carries an older configuration than an entry it covers loses that entry
	if sn := d.newestUsable(); sn != nil && lc == "" && im.hasSnap && sn.index == im.snapIdx {
		var gi uint64
		var gc string
		for i, g := range c.G {
			if g.ty == LogConfiguration && i <= sn.index && i > gi {
				gi, gc = i, g.payload
			}
		}
		if gi > sn.cfgIdx && gc != cfg {
			c.violate("C10", "restart-stale-configuration", e.Seq, "%s restarted reporting configuration [%s] (from its snapshot at index %d, configuration index %d) although configuration [%s] was committed at index %d, which that snapshot covers", key, cfg, sn.index, sn.cfgIdx, gc, gi)
		}
	}
	if im.hasSnap {
		st := c.getStream(key)
		if st.restores == 0 {
			c.violate("C10", "restart-no-fsm-restore", e.Seq, "%s restarted with a complete snapshot on disk (index %d) but its FSM was not restored from it", key, im.snapIdx)
		} else if st.firstRestIdx < im.snapIdx {
			c.violate("C10", "restart-restored-older-snapshot", e.Seq, "%s restarted restoring snapshot index %d although a newer complete one (index %d) was on disk", key, st.firstRestIdx, im.snapIdx)
		}
		c.cov("restart-with-snapshot")
	}
}

// ---------- hooks routed here ----------

func (x *extState) hook(c *checker, s *server, key instKey, e *sim.Ev) {
	switch e.K {
	case "h.userrestore.enter":
		x.restoreEnters[key]++
		op := x.pendingRestore[key]
		if op == nil {
			op = &restoreOp{key: key}
			x.pendingRestore[key] = op
			x.restores = append(x.restores, op)
		}
		op.entered, op.enterSeq = true, e.Seq
		op.latest, op.committed, op.lastIndex, op.metaIndex = e.A, e.B, e.C, e.D
		c.cov("userrestore-entered")
		if op.latest != op.committed {
			c.cov("userrestore-entered-during-config-change")
		}
	case "h.userrestore.done":
		burned := e.A
		s.burned = burned
		op := x.pendingRestore[key]
		content := ""
		if op != nil && op.call != nil {
			content = op.call.payload
			op.done, op.burned, op.content = true, burned, content
		}
		c.userRestores = append(c.userRestores, userRestore{burned: burned, content: content, seq: e.Seq, key: key})
		c.cov("userrestore-done")
		if op != nil {
			want := op.lastIndex
			if op.metaIndex > want {
				want = op.metaIndex
			}
			if burned <= want {
				c.violate("C20", "restore-index-not-above", e.Seq, "user restore on %s burned index %d, not above max(last index %d, snapshot index %d)", key, burned, op.lastIndex, op.metaIndex)
			}
		}
	case "h.verify.start":
		x.verifyStart(c, s, key, e)
	case "h.verify.ok", "h.verify.fail":
		c.cov(e.K[2:])
	case "h.lease.stepdown":
		c.cov("lease-stepdown")
		x.leaseStepdown(c, s, key, e)
	case "h.dispatch":
		c.cov("dispatch")
		// C01/C04: entries of term T are created by the one leader of T only (otherwise two
		// different entries can carry the same index and term and the log-matching argument is void)
		if l := c.leaders[e.C]; l == nil || l.key != key {
			c.violate("C01", "entry-created-by-non-leader", e.Seq, "%s appended entries %d..%d with term %d to its log as leader, but the leader of term %d is %v", key, e.A, e.B, e.C, e.C, l)
		}
		for i := len(c.leadLog) - 1; i >= 0; i-- {
			if l := c.leadLog[i]; l.key == key && !l.ended {
				if !l.active {
					l.active, l.activeT = true, e.T
					c.lat("leader-enter-to-loop-ms", (e.T-l.t)/1e6)
				}
				break
			}
		}
	}
}

func (x *extState) nemesis(c *checker, e *sim.Ev)            { x.nemesisExt(c, e) }
func (x *extState) deliver(c *checker, r *rpcRec, e *sim.Ev) {}
func (x *extState) recv(c *checker, r *rpcRec, e *sim.Ev)    { x.verifyRecv(c, r, e) }
func (x *extState) resp(c *checker, r *rpcRec, e *sim.Ev)    {}
func (x *extState) term(c *checker, s *server, key instKey, old, nw uint64, e *sim.Ev) {
	x.pvTerm(c, s, key, old, nw, e)
}
func (x *extState) installApplied(c *checker, s *server, key instKey, old, nw uint64, e *sim.Ev) {}
func (x *extState) leaderCommit(c *checker, s *server, key instKey, e *sim.Ev)                   {}
func (x *extState) read(c *checker, s *server, e *sim.Ev) {
	if e.X == "pv-after" {
		x.pvRead(c, s, e)
	}
}

func (x *extState) state(c *checker, s *server, key instKey, old, nw int, term uint64, e *sim.Ev) {
	if old == Leader && nw != Leader {
		for _, lc := range x.leaseCuts {
			if lc.key == key && !lc.down {
				lc.down, lc.downT = true, e.T
			}
		}
	}
	x.pvState(c, s, key, old, nw, term, e)
}

func (x *extState) applyBelowBurned(c *checker, s *server, key instKey, i uint64, e *sim.Ev) {
	c.violate("C20", "apply-below-restored-index", e.Seq, "FSM of %s was handed index %d after a user restore that burned index %d", key, i, s.burned)
}

func (x *extState) restore(c *checker, s *server, key instKey, pick *snapRec, e *sim.Ev) {
	if op := x.pendingRestore[key]; op != nil && op.entered && !op.fsmSeen && op.call != nil && e.X == op.call.payload {
		op.fsmSeen = true
	}
}

func (x *extState) invoke(c *checker, cl *call, e *sim.Ev) {
	switch cl.op {
	case "restore":
		x.anyUserRestoreAttempt = true
		x.userContents[cl.payload] = true
		op := &restoreOp{call: cl, key: cl.inst, assignedBefore: c.maxAssigned()}
		x.pendingRestore[cl.inst] = op
		x.restores = append(x.restores, op)
	case "verify":
		v := &verifyOp{call: cl, key: cl.inst, acks: map[string]bool{}, stale: map[string]bool{}}
		x.verifies[cl.id] = v
		x.verByInst[cl.inst] = append(x.verByInst[cl.inst], v)
		x.acksAtInstant(v)
	}
}

func (c *checker) maxAssigned() uint64 {
	var m uint64
	for _, s := range c.srv {
		if _, hi := s.disk.bounds(); hi > m {
			m = hi
		}
	}
	return m
}

func (x *extState) ret(c *checker, cl *call, e *sim.Ev) {
	switch cl.op {
	case "restore":
		x.restoreReturned(c, cl, e)
	case "verify":
		x.verifyReturned(c, cl, e)
	case "apply":
		x.leaseApply(c, cl, e)
	}
}

func (x *extState) finish(c *checker) {
	x.finishLease(c)
	x.finishPV(c)
	x.finishRestore(c)
}

// ---------- C20 ----------

func (x *extState) restoreReturned(c *checker, cl *call, e *sim.Ev) {
	op := x.pendingRestore[cl.inst]
	if op == nil || op.call != cl {
		return
	}
	c.cov("userrestore-returned")
	if cl.err == "" {
		c.cov("userrestore-ok")
		if !op.entered || !op.done {
			c.violate("C20", "restore-ok-without-effect", e.Seq, "Restore on %s returned nil but the restore never completed on the leader", cl.inst)
			return
		}
		if !op.fsmSeen {
			c.violate("C20", "restore-fsm-not-replaced", e.Seq, "Restore on %s returned nil but its FSM was not handed the supplied snapshot", cl.inst)
		}
	}
	if op.entered && (op.latest != op.committed) && op.done {
		c.violate("C20", "restore-during-config-change", e.Seq, "user restore on %s proceeded while configuration %d was uncommitted (committed %d)", cl.inst, op.latest, op.committed)
	}
}

func (x *extState) finishRestore(c *checker) {
	// A Restore that is answered ErrLeadershipTransferInProgress because a transfer was under way was refused
	// before anything happened: the restore routine must not run for it. The hook and the client's return are
	// logged by different goroutines, so this is a count per incarnation, not an ordering.
	mayEnter := map[instKey]int{}
	for _, cl := range c.callList {
		if cl.op != "restore" {
			continue
		}
		// Only ErrLeadershipTransferInProgress identifies a refusal before the restore routine - and only
		// when the transfer was requested at an earlier virtual instant than the Restore (Restore ends with a
		// no-op Apply of its own, which can fail with the very same errors after the restore has been done).
		upFront := false
		if cl.returned && !cl.dead && cl.err == errTransfer {
			for _, t := range c.callList {
				if (t.op == "transfer" || t.op == "transferto") && t.inst == cl.inst && t.invT < cl.invT {
					upFront = true
				}
			}
		}
		if upFront {
			c.cov("userrestore-refused-up-front")
			continue
		}
		mayEnter[cl.inst]++
	}
	// ... and a Restore that was carried out (the routine ran to its end) must not have started while a
	// leadership transfer requested at an earlier virtual instant was still unanswered.
	for _, op := range x.restores {
		if !op.entered || !op.done || op.call == nil {
			continue
		}
		for _, t := range c.callList {
			if (t.op == "transfer" || t.op == "transferto") && t.inst == op.key && t.invT < op.call.invT && (!t.returned || t.retSeq > op.enterSeq) && t.err != errEnqueue {
				if t.returned && t.err != "" && t.retT == op.call.invT {
					continue // answered in the instant of the restore: no order between the two
				}
				c.violate("C20", "restore-during-transfer", op.enterSeq, "user restore on %s was carried out although the leadership transfer requested at t=%dms was still in progress", op.key, t.invT/1e6)
				break
			}
		}
	}
	for key, n := range x.restoreEnters {
		if n > mayEnter[key] {
			c.violate("C20", "restore-ran-although-refused", 0, "the user-restore routine ran %d time(s) on %s, but only %d Restore call(s) on it were not refused because a leadership transfer was already in progress: a refused Restore was carried out", n, key, mayEnter[key])
		}
	}
	// a call is aborted by a restore only if a restore that was not refused ran on that
	// incarnation while the call was in flight: a refused restore leaves everything alone.
	// (The restore hook fires on entry, before the checks that refuse it; the calls are
	// aborted after those checks, and before the snapshot is written, so a restore that
	// fails later on a storage error still aborts them legitimately.)
	for _, cl := range c.callList {
		if !cl.returned || cl.dead || cl.err != errAborted {
			continue
		}
		c.cov("aborted-by-restore-call")
		ok, refused := false, false
		for _, op := range x.restores {
			if op.key == cl.inst && op.entered && op.enterSeq > cl.invSeq && op.enterSeq < cl.retSeq {
				if op.latest == op.committed {
					ok = true
				} else {
					refused = true
				}
			}
		}
		if !ok && refused {
			c.violate("C20", "aborted-by-refused-restore", cl.retSeq, "%s %q on %s failed with ErrAbortedByRestore, but the only user restore on that server while the call was in flight had to be refused (a membership change was uncommitted)", cl.op, cl.payload, cl.inst)
		} else if !ok {
			c.violate("C20", "aborted-without-restore", cl.retSeq, "%s %q on %s failed with ErrAbortedByRestore but no user restore ran on that server while the call was in flight", cl.op, cl.payload, cl.inst)
		}
	}
	// in-flight calls that failed with ErrAbortedByRestore leave no trace in the final state
	for _, cl := range c.callList {
		if cl.op == "apply" && cl.returned && !cl.dead && cl.err == errAborted {
			c.cov("aborted-by-restore")
			id, _ := sim.CmdKey(cl.payload)
			for _, st := range c.finalStates() {
				for k, v := range st.KV {
					if v == id {
						c.violate("C20", "aborted-call-visible", cl.retSeq, "Apply %q failed with ErrAbortedByRestore but key %s of a final FSM state holds it", cl.payload, k)
					}
				}
			}
			if c.appliedP[cl.payload] {
				// followers may still apply the entry before they install the restored
				// snapshot, which then replaces it: only the final state counts
				c.cov("aborted-call-applied-transiently")
			}
		}
	}
}

var _ = fmt.Sprintf
