package oracle

import (
	"strings"

	"rv/sim"
)

// ---------- C09: VerifyLeader ----------

func (x *extState) verifyStart(c *checker, s *server, key instKey, e *sim.Ev) {
	for _, v := range x.verByInst[key] {
		if !v.started && !v.call.returned {
			v.started, v.quorum, v.term, v.startSeq = true, int(e.A), e.B, e.Seq
			_, lc := s.disk.latestLogCfg()
			if lc == "" {
				if sn := s.disk.newest(); sn != nil {
					lc = sn.cfg
				}
			}
			v.voters = ParseCfg(lc).Voters()
			c.cov("verify-started")
			return
		}
	}
}

type recentAck struct {
	peer string
	term uint64
	t    int64
}

// acksAtInstant: acknowledgements the transport handed to the leader at the
// same virtual instant as the call but before it in the log: the replication
// goroutine may deliver them to the verification after it was registered (no
// virtual time can pass in between).
func (x *extState) acksAtInstant(v *verifyOp) {
	for _, a := range x.recent[v.key] {
		if a.t == v.call.invT {
			v.acks[a.peer] = true
			v.stale[a.peer] = true
			v.preTerm = a.term
		}
	}
}

func (x *extState) verifyRecv(c *checker, r *rpcRec, e *sim.Ev) {
	if (r.kind != "ae" && r.kind != "is") || e.B != 1 {
		return
	}
	lst := x.recent[r.from]
	if len(lst) > 0 && lst[0].t != e.T {
		lst = lst[:0]
	}
	x.recent[r.from] = append(lst, recentAck{peer: r.to, term: r.term, t: e.T})
	for _, v := range x.verByInst[r.from] {
		if v.call.returned || r.term != v.term && v.started {
			continue
		}
		// acknowledged "after the call was made": received at or after the
		// virtual instant of the invoke
		if e.T < v.call.invT {
			continue
		}
		v.acks[r.to] = true
		if r.sendSeq < v.call.invSeq {
			v.stale[r.to] = true
		}
	}
}

func (x *extState) verifyReturned(c *checker, cl *call, e *sim.Ev) {
	v := x.verifies[cl.id]
	if v == nil {
		return
	}
	if cl.err != "" {
		c.cov("verify-err")
		return
	}
	c.cov("verify-ok")
	if !v.started {
		// two calls issued concurrently may be taken up in the other order: take
		// over the round that was attributed to a sibling still waiting
		for _, o := range x.verByInst[cl.inst] {
			if o != v && o.started && !o.call.returned && o.startSeq > cl.invSeq {
				v.started, v.quorum, v.term, v.voters, v.startSeq = true, o.quorum, o.term, o.voters, o.startSeq
				o.started = false
				break
			}
		}
	}
	if !v.started {
		c.violate("C09", "verify-ok-never-started", e.Seq, "VerifyLeader on %s returned nil but the leader never started a verification round for it", cl.inst)
		return
	}
	n := 1
	staleOnly := 0
	nonv := 0
	isVoter := map[string]bool{}
	for _, id := range v.voters {
		isVoter[id] = true
	}
	for p := range v.acks {
		if p == cl.inst.s {
			continue
		}
		if isVoter[p] {
			n++
			if v.stale[p] {
				staleOnly++
			}
		} else {
			nonv++
		}
	}
	need := len(v.voters)/2 + 1
	if nonv > 0 {
		c.cov("verify-with-nonvoter-acks")
	}
	if staleOnly > 0 {
		c.res.Cov["verify-stale-inflight-acks"] += staleOnly
	}
	if len(v.voters) > 0 && n < need {
		c.violate("C09", "verify-without-voter-majority", e.Seq, "VerifyLeader on %s (term %d) returned nil with acknowledgements from %d of %d voters %v (need %d); non-voter acknowledgements in the window: %d", cl.inst, v.term, n, len(v.voters), v.voters, need, nonv)
	}
	// consequence: never succeeds on a server already superseded when the call began
	for t, l := range c.leaders {
		if t > v.term && l.seq < cl.invSeq && l.key != cl.inst {
			c.violate("C09", "verify-ok-after-superseded", e.Seq, "VerifyLeader on %s (term %d) returned nil although %s had become leader of term %d before the call was made", cl.inst, v.term, l.key, t)
			break
		}
	}
}

// ---------- C13: leader lease ----------

func (x *extState) nemesisExt(c *checker, e *sim.Ev) {
	switch e.K {
	case "m.lease.cut":
		lc := &leaseCut{key: instKey{e.S, e.Ep}, t: e.T, seq: e.Seq, leaseMs: int64(e.A), shape: e.X}
		for i := len(c.leadLog) - 1; i >= 0; i-- {
			if l := c.leadLog[i]; l.key == lc.key && !l.ended {
				lc.rec = l
				break
			}
		}
		x.leaseCuts = append(x.leaseCuts, lc)
		c.cov("lease-cut:" + e.X)
	case "m.heal", "m.tail.begin":
		for _, lc := range x.leaseCuts {
			if lc.healSeq == 0 {
				lc.healSeq = e.Seq
			}
			if !lc.down && lc.downT == 0 {
				lc.downT = -e.T // healed before step-down: remember when (negative marks "healed")
			}
		}
		x.pvReconnect(c, e)
	case "m.pv.asym":
		// the isolated servers' own requests travel again: from here on they are reconnecting
		x.pvReconnect(c, e)
	case "m.pv.isolate":
		for _, name := range strings.Fields(e.X) {
			s := c.server(name)
			p := &pvIso{name: name, t0: e.T, seq0: e.Seq, termAt: s.maxTerm}
			x.pvIso[name] = p
			c.cov("pv-isolated")
		}
	}
}

// pvReconnect: the isolation of the pre-vote servers ends (fully, or in the direction of their
// own requests first).
func (x *extState) pvReconnect(c *checker, e *sim.Ev) {
	{
		for _, p := range x.pvIso {
			if !p.healed {
				p.healed, p.t1 = true, e.T
				x.pvDone = append(x.pvDone, p)
				// who leads the majority side right now?
				for i := len(c.leadLog) - 1; i >= 0; i-- {
					l := c.leadLog[i]
					if !l.ended && x.pvIso[l.key.s] == nil {
						p.leaderAtHeal, p.termAtHeal = l.key.s, l.term
						break
					}
				}
				s := c.server(p.name)
				p.clusterTermAtHeal = s.maxTerm
				if p.leaderAtHeal != "" {
					li, lt := s.disk.lastEntry()
					Li, Lt := c.server(p.leaderAtHeal).disk.lastEntry()
					p.eligible = s.maxTerm <= p.termAtHeal && !(lt > Lt || (lt == Lt && li > Li))
				}
			}
		}
		x.pvIso = map[string]*pvIso{}
	}
}

// configAppend: a leader that changes the configuration after it was cut off
// may have given itself a different quorum; the cut no longer says anything.
func (x *extState) configAppend(key instKey) {
	for _, lc := range x.leaseCuts {
		if lc.key == key && !lc.down {
			lc.void = true
		}
	}
}

func (x *extState) leaseStepdown(c *checker, s *server, key instKey, e *sim.Ev) {
	if c.params.Y == "quiet" {
		c.violate("C13", "spurious-lease-stepdown", e.Seq, "%s stepped down by the lease check (contacted %d of quorum %d) in a fault-free run", key, e.A, e.B)
	}
}

func (x *extState) leaseApply(c *checker, cl *call, e *sim.Ev) {
	for _, lc := range x.leaseCuts {
		if lc.key == cl.inst && lc.down && cl.invT > lc.downT && cl.err == "" {
			// still isolated? (no heal since the cut)
			healed := lc.healSeq != 0 && lc.healSeq < cl.invSeq
			if !healed {
				c.violate("C13", "write-accepted-after-stepdown", e.Seq, "Apply on %s succeeded although it had lost its majority and stepped down at t=%dms", cl.inst, lc.downT/1e6)
			}
		}
	}
}

func (x *extState) finishLease(c *checker) {
	x.finishMajority(c)
	endT := c.lastT
	for _, lc := range x.leaseCuts {
		if lc.void {
			c.cov("lease-cut-voided-by-config-change")
			continue
		}
		bound := 2 * lc.leaseMs * 1e6
		if lc.rec != nil {
			// the lease check exists only once the leader loop runs (see leaderRec.active)
			if !lc.rec.active {
				c.cov("lease-cut-before-leader-loop")
				continue
			}
			if lc.rec.activeT > lc.t {
				lc.t = lc.rec.activeT
			}
		}
		if lc.down {
			d := lc.downT - lc.t
			c.lat("lease-stepdown-ms", d/1e6)
			c.cov("lease-stepdown-measured")
			if d > bound {
				c.violate("C13", "stepdown-too-late", lc.seq, "%s lost its voter majority at t=%dms (%s) and stepped down only after %dms; LeaderLeaseTimeout is %dms (bound 2x)", lc.key, lc.t/1e6, lc.shape, d/1e6, lc.leaseMs)
			}
			continue
		}
		// never stepped down: was it given enough time, still isolated and alive?
		until := endT
		if lc.downT < 0 {
			until = -lc.downT
		}
		crashed := lc.goneT != 0 && lc.goneT <= lc.t+bound
		if !crashed && until-lc.t > bound {
			c.violate("C13", "no-stepdown", lc.seq, "%s lost its voter majority at t=%dms (%s) and was still leader %dms later; LeaderLeaseTimeout is %dms", lc.key, lc.t/1e6, lc.shape, (until-lc.t)/1e6, lc.leaseMs)
		}
	}
	if c.params.Y == "quiet" {
		c.cov("quiet-run")
		if len(c.leadLog) != 1 {
			c.violate("C13", "leader-change-in-fault-free-run", 0, "fault-free run saw %d leader elections (expected exactly 1)", len(c.leadLog))
		}
	}
}

// ---------- C14: pre-vote ----------

func (x *extState) pvTerm(c *checker, s *server, key instKey, old, nw uint64, e *sim.Ev) {
	p := x.pvIso[s.name]
	if p == nil || nw <= old {
		return
	}
	settle := 2 * c.electMs * 1e6
	// adopting a term the rest of the cluster has already reached (learnt from an answer) is
	// catching up, not inflating
	var clusterMax uint64
	for name, o := range c.srv {
		if x.pvIso[name] == nil && o.maxTerm > clusterMax {
			clusterMax = o.maxTerm
		}
	}
	if e.T > p.t0+settle && nw > clusterMax {
		p.bumps++
		c.violate("C14", "isolated-server-inflates-term", e.Seq, "%s, isolated from a majority since t=%dms with pre-vote enabled, raised its term from %d to %d at t=%dms", key, p.t0/1e6, old, nw, e.T/1e6)
	}
}

func (x *extState) pvState(c *checker, s *server, key instKey, old, nw int, term uint64, e *sim.Ev) {}

// pvRead: the reading taken 5 election timeouts after the heal.
func (x *extState) pvRead(c *checker, s *server, e *sim.Ev) {
	for _, p := range x.pvDone {
		if p.name != s.name || p.checked || !p.healed {
			continue
		}
		p.checked = true
		if !p.eligible {
			c.cov("pv-reconnect-not-eligible")
			continue
		}
		c.cov("pv-reconnect-checked")
		// no new leader and no term change on the majority side since the heal
		for _, l := range c.leadLog {
			if l.t > p.t1 && l.t <= e.T {
				c.violate("C14", "reconnect-forces-election", e.Seq, "%s (log not ahead, term %d <= %d) reconnected at t=%dms and %s became leader of term %d at t=%dms; the healthy leader was %s", p.name, p.clusterTermAtHeal, p.termAtHeal, p.t1/1e6, l.key, l.term, l.t/1e6, p.leaderAtHeal)
				return
			}
		}
		if int(e.B) != Follower || e.Y != p.leaderAtHeal || e.A != p.termAtHeal {
			c.violate("C14", "reconnect-not-follower", e.Seq, "%s reconnected at t=%dms; five election timeouts later it reports state %d, leader %q, term %d (expected follower of %s in term %d)", p.name, p.t1/1e6, e.B, e.Y, e.A, p.leaderAtHeal, p.termAtHeal)
		}
	}
}

func (x *extState) finishPV(c *checker) {
	for _, p := range x.pvDone {
		c.cov("pv-isolation-completed")
		c.lat("pv-isolation-ms", (p.t1-p.t0)/1e6)
	}
}

// ---------- C13, general form: majority reachability of every leader ----------

// netEvent keeps the reachability matrix and re-evaluates every leader.
func (x *extState) netEvent(c *checker, e *sim.Ev) {
	switch e.K {
	case "x.cut":
		m := x.cutM
		if e.Y == "requests-only" {
			m = x.reqCutM
		}
		if e.A == 1 {
			m[[2]string{e.S, e.X}] = true
		} else {
			delete(m, [2]string{e.S, e.X})
		}
	case "x.heal":
		x.cutM = map[[2]string]bool{}
		x.reqCutM = map[[2]string]bool{}
	}
	x.reevalMajority(c, e)
}

// leaderHasMajority: can the leader exchange messages with enough running
// voters of its latest durable configuration?
func (x *extState) leaderHasMajority(c *checker, l *leaderRec) (bool, int, int) {
	s := c.server(l.key.s)
	_, lc := s.disk.latestLogCfg()
	if lc == "" {
		if sn := s.disk.newest(); sn != nil {
			lc = sn.cfg
		}
	}
	voters := ParseCfg(lc).Voters()
	n := 0
	for _, v := range voters {
		if v == l.key.s {
			n++
			continue
		}
		o := c.srv[v]
		if o == nil || !o.up {
			continue
		}
		// the leader's requests must get there and the answers must get back; requests the
		// other way do not matter
		if x.cutM[[2]string{l.key.s, v}] || x.cutM[[2]string{v, l.key.s}] || x.reqCutM[[2]string{l.key.s, v}] {
			continue
		}
		n++
	}
	return n >= len(voters)/2+1, n, len(voters)
}

func (x *extState) reevalMajority(c *checker, e *sim.Ev) {
	for _, l := range c.leadLog {
		if l.ended {
			continue
		}
		ok, n, tot := x.leaderHasMajority(c, l)
		if ok {
			if l.lost {
				// the majority is back: it must not have been gone for longer than the bound
				x.leaderEnded(c, l, e.T, "majority reachable again")
			}
			l.lostAt, l.lost = 0, false
		} else if !l.lost {
			l.lost, l.lostAt, l.lostSeq, l.lostN, l.lostTot = true, e.T, e.Seq, n, tot
		}
	}
}

// leaderEnded: called when a leader steps down, crashes or is shut down.
func (x *extState) leaderEnded(c *checker, l *leaderRec, t int64, how string) {
	if !l.lost {
		return
	}
	if !l.active {
		// still delivering the leadership notification to a slow NotifyCh consumer
		c.cov("majority-loss-before-leader-loop")
		l.lost = false
		return
	}
	from := l.lostAt
	if l.activeT > from {
		from = l.activeT
	}
	d := t - from
	bound := 2 * c.leaseMs * 1e6
	c.cov("majority-loss-timed")
	c.lat("majority-loss-to-end-ms", d/1e6)
	if d > bound && how == "stepdown" {
		c.violate("C13", "stepdown-too-late", l.lostSeq, "%s could reach only %d of %d voters from t=%dms on and stepped down %dms later; LeaderLeaseTimeout is %dms (bound 2x)", l.key, l.lostN, l.lostTot, l.lostAt/1e6, d/1e6, c.leaseMs)
	} else if d > bound {
		c.violate("C13", "no-stepdown", l.lostSeq, "%s could reach only %d of %d voters from t=%dms on and was still leader %dms later (%s); LeaderLeaseTimeout is %dms", l.key, l.lostN, l.lostTot, l.lostAt/1e6, d/1e6, how, c.leaseMs)
	}
	l.lost = false
}

func (x *extState) finishMajority(c *checker) {
	for _, l := range c.leadLog {
		if !l.ended && l.lost {
			x.leaderEnded(c, l, c.lastT, "end of run")
		}
	}
}
