package oracle

import (
	"fmt"
	"strings"
	"time"

	"github.com/anishathalye/porcupine"

	"rv/sim"
)

const (
	errNotLeader  = "node is not the leader"
	errEnqueue    = "timed out enqueuing operation"
	errTransfer   = "leadership transfer in progress"
	errShutdown   = "raft is already shutdown"
	errLeaderLost = "leadership lost while committing log"
	errAborted    = "snapshot restored while committing log"
)

func definiteFailure(err string) bool {
	return err == errNotLeader || err == errEnqueue || err == errTransfer
}

func (c *checker) client(e *sim.Ev) {
	switch e.K {
	case "c.inv":
		cl := &call{id: e.A, client: e.B, extra: e.C, inst: instKey{e.S, e.Ep}, op: e.X, payload: e.Y, invSeq: e.Seq, invT: e.T, afterSD: e.Z == "after-shutdown", floor: c.maxAcked}
		c.calls[cl.id] = cl
		c.callList = append(c.callList, cl)
		c.cov("call:" + cl.op)
		c.ext.invoke(c, cl, e)
	case "c.ret", "c.ret.dead":
		cl := c.calls[e.A]
		if cl == nil {
			return
		}
		cl.returned, cl.retSeq, cl.retT, cl.err, cl.index, cl.resp = true, e.Seq, e.T, e.Z, e.B, e.P
		cl.dead = e.K == "c.ret.dead"
		if cl.err == "" {
			c.cov("call-ok:" + cl.op)
		} else {
			c.cov("call-err:" + cl.op)
		}
		if cl.dead {
			return // outcome unknown: the server crashed while the call was open
		}
		c.onReturn(cl, e)
		c.ext.ret(c, cl, e)
	case "c.stranded":
		cl := c.calls[e.A]
		if cl == nil {
			return
		}
		cl.stranded = true
		where := "running-" + e.Y
		if e.B == 1 || e.Y == "Shutdown" {
			where = "after-shutdown"
		} else if e.C == 0 {
			where = "crashed"
		}
		if where == "crashed" {
			c.cov("stranded-on-crashed-incarnation")
			return // a crashed process takes its callers with it
		}
		if e.Y == "Leader" {
			if b := c.brokenVoterOf(cl.inst.s); b != "" {
				// the leader cannot commit anything: a voter it depends on holds a user restore that
				// never got replicated and accepts nothing any more (known finding S12)
				c.violate("C17", "stranded-on-leader-behind-unreplicated-user-restore", e.Seq, "%s issued on %s at t=%dms had not resolved after %v of virtual time: the leader needs voter %s, which is stuck behind its own unreplicated user restore", cl.op, cl.inst, cl.invT/1e6, sim.CallWatchdog, b)
				return
			}
		}
		c.violate("C17", "stranded-"+cl.op+"-"+where, e.Seq, "%s issued on %s at t=%dms had not resolved after %v of virtual time (server state %s)", cl.op, cl.inst, cl.invT/1e6, sim.CallWatchdog, e.Y)
	}
}

func (c *checker) onReturn(cl *call, e *sim.Ev) {
	s := c.server(cl.inst.s)
	switch cl.op {
	case "apply":
		if cl.err == "" {
			// C08.3 real-time order
			if cl.index <= cl.floor {
				c.violate("C08", "index-not-above-earlier-ack", e.Seq, "Apply %q acknowledged at index %d although index %d had been acknowledged before it was issued", cl.payload, cl.index, cl.floor)
			}
			// identity
			en := sim.Ent{I: cl.index, Ty: LogCommand, P: cl.payload}
			if g := c.G[cl.index]; g != nil {
				if g.payload != cl.payload || g.ty != LogCommand {
					c.violate("C08", "ack-index-holds-other-entry", e.Seq, "Apply %q acknowledged at index %d but the committed entry there is (type %d, %q)", cl.payload, cl.index, g.ty, g.payload)
				}
				en.T = g.term
			} else if d, ok := s.disk.logs[cl.index]; ok {
				en.T = d.T
				if d.P != cl.payload {
					c.violate("C08", "ack-index-holds-other-entry", e.Seq, "Apply %q acknowledged at index %d but %s holds %q there", cl.payload, cl.index, cl.inst, d.P)
				} else {
					c.addG(cl.index, sim.Ent{I: cl.index, T: d.T, Ty: d.Ty, P: d.P}, e.Seq, "ack to client on "+cl.inst.String(), "C08")
				}
			}
			// C08.2 response is what the local FSM returned for that very entry
			st := c.getStream(cl.inst)
			id, _ := sim.CmdKey(cl.payload)
			prev, applied := st.prevOf[cl.index]
			want := fmt.Sprintf("%d/%s/%s", cl.index, id, prev)
			if !applied {
				c.violate("C08", "ack-before-local-apply", e.Seq, "Apply %q acknowledged at index %d but the local FSM of %s has not been handed that index", cl.payload, cl.index, cl.inst)
			} else if cl.resp != want {
				c.violate("C08", "wrong-response", e.Seq, "Apply %q at index %d returned response %q, the local FSM returned %q", cl.payload, cl.index, cl.resp, want)
			}
			// C01.3 acknowledged on the leader of the entry's term
			if en.T != 0 {
				if l := c.leaders[en.T]; l == nil || l.key != cl.inst {
					c.violate("C01", "ack-from-nonleader", e.Seq, "Apply %q acknowledged by %s at index %d term %d, but the leader of that term is %v", cl.payload, cl.inst, cl.index, en.T, l)
				}
			}
			if cl.index > c.maxAcked {
				c.maxAcked = cl.index
			}
		}
	case "barrier":
		if cl.err == "" {
			// C08.5: the local FSM has applied every entry committed before the barrier
			st := c.getStream(cl.inst)
			var need uint64
			for i, g := range c.G {
				if i < cl.index && visibleType(g.ty) && i > need {
					need = i
				}
			}
			if st.last < need && !(st.userBase >= need) {
				c.violate("C08", "barrier-before-apply", e.Seq, "Barrier on %s returned at index %d but its FSM has only been handed up to %d; committed command %d is missing", cl.inst, cl.index, st.last, need)
			}
			c.cov("barrier-checked")
			if cl.index > c.maxAcked {
				c.maxAcked = cl.index
			}
		}
	case "addvoter", "addnonvoter", "demote", "remove":
		if cl.err == "" && cl.index > c.maxAcked {
			c.maxAcked = cl.index
		}
	}
	// C17: after Shutdown() returned, calls complete with ErrRaftShutdown
	if cl.afterSD && cl.op != "getconfig" {
		if cl.err == "operation not supported with current protocol version" {
			// an API this protocol version does not have is refused before the server's state is looked at
			c.cov("after-shutdown-unsupported-api")
		} else if cl.err != errShutdown {
			c.violate("C17", "after-shutdown-wrong-result-"+cl.op, e.Seq, "%s on %s after Shutdown returned %q instead of ErrRaftShutdown", cl.op, cl.inst, cl.err)
		}
		c.cov("after-shutdown-call")
	}
}

func (c *checker) finishClient() {
	open := 0
	for _, cl := range c.callList {
		if !cl.returned && !cl.stranded {
			open++
		}
		if !cl.returned || cl.dead {
			continue
		}
		if cl.op == "apply" {
			if cl.err == "" {
				// C08.1 committed at exactly that index, in every FSM stream that passes it
				g := c.G[cl.index]
				if g == nil {
					c.violate("C08", "ack-not-committed", cl.retSeq, "Apply %q acknowledged at index %d but that index never became part of the agreed history", cl.payload, cl.index)
				}
				for k, st := range c.streams {
					if at, ok := st.payloadAt[cl.payload]; ok && at != cl.index {
						c.violate("C08", "applied-at-other-index", cl.retSeq, "Apply %q acknowledged at index %d was applied at index %d on %s", cl.payload, cl.index, at, k)
					}
				}
			} else if definiteFailure(cl.err) {
				// C08.4 definite failures leave no trace
				c.cov("definite-failure")
				if c.stored[cl.payload] {
					c.violate("C08", "failed-call-stored", cl.retSeq, "Apply %q returned %q but the command was stored in a log", cl.payload, cl.err)
				}
				if c.appliedP[cl.payload] {
					c.violate("C08", "failed-call-applied", cl.retSeq, "Apply %q returned %q but the command was applied", cl.payload, cl.err)
				}
			}
		}
	}
	c.res.Cov["calls-open-at-end"] = open
	c.porcupine()
}

// ---- porcupine cross-check: per-key swap register ----

type regIn struct {
	key, id string
}
type regOut struct {
	prev    string
	unknown bool
}

func (c *checker) porcupine() {
	if len(c.userRestores) > 0 || c.ext.anyUserRestoreAttempt {
		return // a user restore replaces the register contents; model does not apply
	}
	var ops []porcupine.Operation
	endT := c.lastT + 1000
	for _, cl := range c.callList {
		if cl.op != "apply" {
			continue
		}
		id, key := sim.CmdKey(cl.payload)
		if key == "" {
			continue
		}
		if cl.returned && !cl.dead && cl.err == "" {
			parts := strings.SplitN(cl.resp, "/", 3)
			prev := ""
			if len(parts) == 3 {
				prev = parts[2]
			}
			ops = append(ops, porcupine.Operation{ClientId: int(cl.id), Input: regIn{key, id}, Call: cl.invT, Output: regOut{prev: prev}, Return: cl.retT})
		} else if cl.returned && !cl.dead && definiteFailure(cl.err) {
			continue
		} else {
			// unknown outcome: stays open to the end of the history
			ops = append(ops, porcupine.Operation{ClientId: int(cl.id), Input: regIn{key, id}, Call: cl.invT, Output: regOut{unknown: true}, Return: endT})
		}
	}
	if len(ops) == 0 {
		return
	}
	for i := range ops {
		ops[i].ClientId = i
	}
	model := porcupine.Model{
		Partition: func(h []porcupine.Operation) [][]porcupine.Operation {
			m := map[string][]porcupine.Operation{}
			for _, o := range h {
				k := o.Input.(regIn).key
				m[k] = append(m[k], o)
			}
			var out [][]porcupine.Operation
			for _, v := range m {
				out = append(out, v)
			}
			return out
		},
		Init: func() interface{} { return "" },
		Step: func(st, in, out interface{}) (bool, interface{}) {
			i, o := in.(regIn), out.(regOut)
			if o.unknown {
				return true, i.id // may have taken effect (a history where it did not is covered by ordering it last)
			}
			return o.prev == st.(string), i.id
		},
		Equal: func(a, b interface{}) bool { return a.(string) == b.(string) },
	}
	// An operation with unknown outcome may also never have taken effect:
	// porcupine has no "optional" operations, so such histories are checked in
	// the variant where unknown operations that no successful read ever
	// observed are dropped.
	seen := map[string]bool{}
	for _, o := range ops {
		if out := o.Output.(regOut); !out.unknown {
			seen[out.prev] = true
		}
	}
	for _, st := range c.finalStates() {
		for _, v := range st.KV {
			seen[v] = true
		}
	}
	var hist []porcupine.Operation
	for _, o := range ops {
		if o.Output.(regOut).unknown && !seen[o.Input.(regIn).id] {
			continue
		}
		hist = append(hist, o)
	}
	res, _ := porcupine.CheckOperationsVerbose(model, hist, 20*time.Second)
	c.res.Cov["porcupine-ops"] = len(hist)
	switch res {
	case porcupine.Ok:
		c.cov("porcupine-ok")
	case porcupine.Illegal:
		c.violate("C08", "history-not-linearizable", 0, "the client history of %d Apply calls is not linearizable against a per-key swap register", len(hist))
	default:
		c.cov("porcupine-inconclusive")
	}
}

func (c *checker) finalStates() []sim.FSMState {
	var out []sim.FSMState
	for _, e := range c.finalReads {
		if st, err := sim.DecodeState(e.R); err == nil && e.R != "" {
			out = append(out, st)
		}
	}
	return out
}

// brokenVoterOf: a voter (other than the leader itself) of the leader's latest durable configuration
// that performed a user restore the cluster never adopted, when the leader cannot reach a quorum
// without it.
func (c *checker) brokenVoterOf(leader string) string {
	s := c.srv[leader]
	if s == nil {
		return ""
	}
	_, lc := s.disk.latestLogCfg()
	if lc == "" {
		if sn := s.disk.newest(); sn != nil {
			lc = sn.cfg
		}
	}
	voters := ParseCfg(lc).Voters()
	broken, bad := "", 0
	for _, v := range voters {
		for _, u := range c.userRestores {
			if u.key.s == v && v != leader && !c.restoreAdopted(u) {
				broken = v
				bad++
				break
			}
		}
	}
	if broken != "" && len(voters)-bad < len(voters)/2+1 {
		return broken
	}
	return ""
}
