package oracle

import (
	"fmt"
	"sort"
	"strings"

	"rv/sim"
)

type instKey struct {
	s  string
	ep int
}

func (k instKey) String() string { return fmt.Sprintf("%s/%d", k.s, k.ep) }

type stream struct {
	key          instKey
	last         uint64 // last index handed to the FSM (or restored snapshot index)
	lastCmd      uint64
	applied      int
	restores     int
	payloadAt    map[string]uint64
	prevOf       map[uint64]string // index -> prev value returned by Apply
	afterRest    bool              // a restore happened and no apply since
	restIdx      uint64
	firstRestIdx uint64 // index of the first snapshot this incarnation's FSM was restored from
	userBase     uint64 // burned index of the last user restore seen by this stream
}

type rpcRec struct {
	id       uint64
	kind     string
	from     instKey
	to       string
	toKey    instKey
	term     uint64
	c, d, e  uint64 // kind-specific (see sim.reqEv)
	z        string
	ents     []sim.Ent
	sendSeq  uint64
	delivSeq uint64
	respSeq  uint64
	recvSeq  uint64
	okLog    bool // C06.2 / C04.2 window flags
	okCfg    bool
	okAE     bool
	dupOf    uint64
	cfg      string
	data     string
	delivT   int64
}

type call struct {
	id       uint64
	client   uint64
	inst     instKey
	op       string
	payload  string
	extra    uint64
	invSeq   uint64
	invT     int64
	retSeq   uint64
	retT     int64
	err      string
	index    uint64
	resp     string
	returned bool
	dead     bool
	stranded bool
	afterSD  bool
	floor    uint64 // largest index acknowledged before the invoke
	termAt   uint64
}

type server struct {
	name                    string
	disk                    *Disk
	ep                      int
	up                      bool
	everUp                  bool
	maxTerm                 uint64      // largest term ever reported through hooks / start
	pendTerm                []pendTermW // setCurrentTerm calls whose durable write has not been seen yet (this incarnation)
	pendTermEp              int
	leaderRacedTerm         uint64 // a leader was recorded while the write of this (newer) term was in flight
	termRaced               bool   // two setCurrentTerm calls of one incarnation overlapped (main loop and heartbeat fast path)
	repEpoch                int    // externally reported terms (responses, CurrentTerm()): see reportedTerm
	repMaxCur, repMaxPrev   uint64
	repMaxCurWhat           string
	repMaxPrevWhat          string
	state                   int
	stream                  *stream
	commit                  uint64 // last commit index written in this epoch
	applied                 uint64
	notes                   []bool
	lch                     []bool
	enters                  int
	exits                   int
	lastTransT              int64 // virtual time of the last leader.enter / leader.exit hook
	shutdown                bool  // Shutdown() called on the current incarnation
	pendVoteT               uint64
	havePendV               bool
	pendVoteC               string
	havePendC               bool
	sinceSnapClose          bool
	truncSinceCreate        bool
	truncT                  int64
	burned                  uint64
	lastStartSeq            uint64
	trailing                uint64
	img                     startImg
	startTerm, startMaxTerm uint64 // durable term / largest reported term when the current incarnation was created
	installedMax            uint64 // largest index of a snapshot this server installed from a leader
	electNotCandTerm        uint64 // term of an election this server started while its state was not Candidate
}

type leaderRec struct {
	key   instKey
	term  uint64
	seq   uint64
	t     int64
	endT  int64
	ended bool
	// C13: since when this leader cannot reach a voter majority
	lost           bool
	lostAt         int64
	lostSeq        uint64
	lostN, lostTot int
	// the leader loop (and with it the lease check) only starts after the NotifyCh
	// consumer has taken the notification: raft documents that it blocks on that channel
	active  bool
	activeT int64
}

type checker struct {
	res    *Result
	vcount map[string]int
	chunks [][]sim.Ev
	lastT  int64

	srv     map[string]*server
	order   []string
	streams map[instKey]*stream

	leaders  map[uint64]*leaderRec // by term
	leadLog  []*leaderRec
	votes    map[string]map[string]uint64 // "server/term" -> candidate -> seq
	checkedG map[string]bool              // "server/term/cand": grant already validated

	G        map[uint64]*gent
	maxLC    uint64 // largest leader-published commit index
	maxAcked uint64

	rpcs     map[uint64]*rpcRec
	inflight map[string]map[uint64]*rpcRec // receiver -> delivered, not yet responded
	calls    map[uint64]*call
	callList []*call

	stored                 map[string]bool // every payload ever stored on any disk
	appliedP               map[string]bool
	applyGaps              []gapRec
	userRestores           []userRestore
	params                 sim.Ev
	initCfg                Config
	electMs, leaseMs, hbMs int64
	notifyDelayMs          int64
	trailing               uint64
	monotonic              bool

	tailBegin, tailQuiet, tailProbe, tailEnd uint64
	tailQuietT                               int64
	finalReads                               []sim.Ev
	preReads                                 []sim.Ev // readings taken after the convergence wait, before the probe write
	installs                                 map[string]int
	spin                                     []sim.Ev
	probeIdx                                 uint64
	probeOK                                  bool

	timeoutNow    map[string]uint64 // server -> seq of a TimeoutNow delivered since its last state change
	snapsPending  []snapCheck
	restoreChecks []restoreCheck
	ext           extState
}

type gapRec struct {
	key  instKey
	i, j uint64
	seq  uint64
}

type userRestore struct {
	burned  uint64
	content string
	seq     uint64
	key     instKey
}

type snapCheck struct {
	key         instKey
	index, term uint64
	cfg         string
	cfgIdx      uint64
	content     string
	seq         uint64
	local       bool
}

type pendTermW struct {
	v     uint64
	raced bool
}

type restoreCheck struct {
	key         instKey
	content     string
	seq         uint64
	index, term uint64 // of the snapshot the content was read from
	known       bool
}

// Check runs every monitor over one execution's event log.
func Check(evs []sim.Ev) *Result { return CheckChunks([][]sim.Ev{evs}) }

// each calls f for every event in order.
func (c *checker) each(f func(e *sim.Ev) bool) {
	for _, ch := range c.chunks {
		for i := range ch {
			if !f(&ch[i]) {
				return
			}
		}
	}
}

// CheckChunks is Check for a log stored in pieces.
func CheckChunks(chunks [][]sim.Ev) *Result {
	c := &checker{
		res: &Result{Cov: map[string]int{}}, vcount: map[string]int{}, chunks: chunks,
		srv: map[string]*server{}, streams: map[instKey]*stream{},
		leaders: map[uint64]*leaderRec{}, votes: map[string]map[string]uint64{}, checkedG: map[string]bool{},
		G: map[uint64]*gent{}, rpcs: map[uint64]*rpcRec{}, inflight: map[string]map[uint64]*rpcRec{},
		calls: map[uint64]*call{}, stored: map[string]bool{}, appliedP: map[string]bool{}, installs: map[string]int{}, timeoutNow: map[string]uint64{},
	}
	c.ext.init()
	c.each(func(e *sim.Ev) bool {
		c.lastT = e.T
		c.step(e)
		return true
	})
	c.finish()
	return c.res
}

func (c *checker) server(name string) *server {
	s := c.srv[name]
	if s == nil {
		s = &server{name: name, disk: newDisk()}
		c.srv[name] = s
		c.order = append(c.order, name)
		sort.Strings(c.order)
	}
	return s
}

func (c *checker) getStream(k instKey) *stream {
	st := c.streams[k]
	if st == nil {
		st = &stream{key: k, payloadAt: map[string]uint64{}, prevOf: map[uint64]string{}}
		c.streams[k] = st
	}
	return st
}

func (c *checker) step(e *sim.Ev) {
	c.res.Cov["events"]++
	switch {
	case e.K == "Lparams":
		c.params = *e
		c.initCfg = ParseCfg(e.X)
		c.electMs, c.leaseMs, c.hbMs = int64(e.A), int64(e.B), int64(e.C)
		c.trailing, c.monotonic = e.D, e.F == 1
		fmt.Sscanf(e.Z, "notify_delay_ms=%d", &c.notifyDelayMs)
	case strings.HasPrefix(e.K, "d."):
		c.diskOp(e)
	case strings.HasPrefix(e.K, "r."):
		c.rpc(e)
	case strings.HasPrefix(e.K, "h."):
		c.hook(e)
	case strings.HasPrefix(e.K, "f."):
		c.fsm(e)
	case strings.HasPrefix(e.K, "c."):
		c.client(e)
	case strings.HasPrefix(e.K, "n."):
		c.notify(e)
	case strings.HasPrefix(e.K, "L"):
		c.lifecycle(e)
	case strings.HasPrefix(e.K, "m."):
		c.nemesis(e)
	case strings.HasPrefix(e.K, "s."):
		c.sample(e)
	case strings.HasPrefix(e.K, "o."):
		c.observer(e)
	case strings.HasPrefix(e.K, "x."):
		c.ext.netEvent(c, e)
	case e.K == "spin":
		if c.server(e.S).shutdown {
			// Shutdown() has been called on the sender: its replication routines skip their back-off
			// (they select on shutdownCh) until the main loop closes their stop channels a moment
			// later. Not a catch-up that repeats itself, the server is going away.
			c.cov("spin-during-shutdown")
			return
		}
		c.spin = append(c.spin, *e)
		c.violate("C12", "zero-time-spin", e.Seq, "link %s->%s delivered %d RPCs without virtual time advancing (pattern %s): catch-up repeats the same transfer", e.S, e.X, e.A, e.Y)
	}
}

// ---------- lifecycle ----------

func (c *checker) lifecycle(e *sim.Ev) {
	switch e.K {
	case "Lcrash":
		s := c.server(e.S)
		s.ep = e.Ep
		s.up = false
		s.state = Follower
		s.disk.dropUnfinished()
		s.havePendV, s.havePendC = false, false
		s.shutdown = false
		c.cov("crash:" + crashKind(e.X))
		// open leadership of the crashed incarnation ends
		for _, l := range c.leadLog {
			if l.key.s == e.S && !l.ended {
				c.ext.leaderEnded(c, l, e.T, "crash")
				l.ended, l.endT = true, e.T
			}
		}
		delete(c.inflight, e.S)
		c.ext.reevalMajority(c, e)
		c.ext.gone(e.S, e.T)
	case "Lstart":
		s := c.server(e.S)
		s.ep = e.Ep
		s.lastStartSeq = e.Seq
		c.startImage(s, e)
	case "Lstarted":
		s := c.server(e.S)
		s.up, s.everUp = true, true
		s.commit, s.applied = e.C, e.D
		c.ext.reevalMajority(c, e)
		c.cov("starts")
		c.checkStarted(s, e)
	case "Lnewraft.blocked":
		c.violate("C10", "newraft-blocked", e.Seq, "NewRaft on %s/%d had not returned after %v of virtual time", e.S, e.Ep, sim.NewRaftWatchdog)
	case "Lnewraft.err":
		c.violate("C10", "newraft-error", e.Seq, "NewRaft on %s/%d failed: %s", e.S, e.Ep, e.X)
	case "Lshutdown.begin":
		c.server(e.S).shutdown = true
		c.ext.gone(e.S, e.T)
	case "Lshutdown.hang":
		c.violate("C17", "shutdown-hang", e.Seq, "Shutdown().Error() on %s did not return within the watchdog", e.S)
	}
}

func crashKind(x string) string {
	if i := strings.IndexByte(x, '.'); i > 0 && strings.HasPrefix(x, "before ") || strings.HasPrefix(x, "after ") {
		_ = i
	}
	return x
}

// ---------- nemesis markers ----------

func (c *checker) nemesis(e *sim.Ev) {
	c.cov("nemesis:" + e.K[2:])
	switch e.K {
	case "m.tail.begin":
		c.tailBegin = e.Seq
	case "m.tail.quiet":
		c.tailQuiet, c.tailQuietT = e.Seq, e.T
	case "m.tail.probe":
		c.tailProbe = e.Seq
	case "m.tail.end":
		c.tailEnd = e.Seq
		c.pairwiseLogMatching(e.Seq, "after the quiet tail")
	case "m.heal", "m.restartall":
		c.pairwiseLogMatching(e.Seq, "at "+e.K[2:])
	}
	c.ext.nemesis(c, e)
}

// observer: a LeaderObservation (raft's setLeader) is logged on the goroutine that made the change.
// When a server records a leader while one of its own setCurrentTerm calls is still waiting for the
// stable store, the record was made under the old term by the other goroutine (the transport's heartbeat
// fast path) and survives into the new term: the race behind known findings S14 / S22.
func (c *checker) observer(e *sim.Ev) {
	if e.K != "o.leader" || e.X == "" {
		return
	}
	s := c.server(e.S)
	if s.pendTermEp == e.Ep {
		for _, p := range s.pendTerm {
			if p.v > e.B && p.v > s.leaderRacedTerm {
				s.leaderRacedTerm = p.v
				c.cov("leader-recorded-during-term-write")
			}
		}
	}
}

// ---------- finish ----------

func (c *checker) finish() {
	c.finishG()
	c.finishFSM()
	c.finishClient()
	c.finishNotify()
	c.finishTail()
	c.ext.finish(c)
	sort.SliceStable(c.res.Violations, func(i, j int) bool { return c.res.Violations[i].Seq < c.res.Violations[j].Seq })
}
