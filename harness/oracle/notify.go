package oracle

import (
	"rv/sim"
)

func (c *checker) notify(e *sim.Ev) {
	s := c.server(e.S)
	switch e.K {
	case "n.notify":
		c.cov("notify")
		v := e.A == 1
		// C18.1 strictly alternating, starting with true
		want := len(s.notes)%2 == 0
		if v != want {
			c.violate("C18", "notify-not-alternating", e.Seq, "NotifyCh of %s/%d delivered %v as message %d of this incarnation (sequence so far %v)", e.S, e.Ep, v, len(s.notes)+1, s.notes)
		}
		s.notes = append(s.notes, v)
	case "n.lch":
		c.cov("leaderch")
		s.lch = append(s.lch, e.A == 1)
	}
}

func (c *checker) sample(e *sim.Ev) {
	switch e.K {
	case "s.sample":
		t1, t2, st, id := e.A, e.B, int(e.C), e.X
		c.cov("leader-sample")
		c.reportedTerm(e.S, e.Ep, t1, e.Seq, "CurrentTerm()")
		c.reportedTerm(e.S, e.Ep, t2, e.Seq, "CurrentTerm()")
		if t1 != t2 || id == "" || st != Follower {
			return
		}
		c.cov("leader-sample-checked")
		// C18.3 a follower names only a server that really was leader of its current term
		l := c.leaders[t1]
		if l == nil || l.key.s != id {
			sig := "follower-names-non-leader"
			if c.server(e.S).electNotCandTerm == t1 {
				// it raised its own term in an election it started after a concurrently handled
				// heartbeat had already made it a follower of the previous term's leader
				sig = "follower-names-non-leader-after-heartbeat-raced-election"
			} else if c.server(e.S).leaderRacedTerm == t1 {
				// same race, other entry point: the main loop was inside setCurrentTerm(t1) (slow stable
				// store) when the fast path handled a heartbeat of the previous term's leader
				sig = "follower-names-non-leader-after-heartbeat-raced-term-write"
			}
			c.violate("C18", sig, e.Seq, "%s/%d (follower, term %d) reports leader %q but the leader of term %d is %v", e.S, e.Ep, t1, id, t1, l)
		}
	case "s.read":
		if e.X == "final" {
			c.finalReads = append(c.finalReads, *e)
		}
		if e.X == "preprobe" {
			c.preReads = append(c.preReads, *e)
		}
		if e.Z == "down" {
			return
		}
		s := c.server(e.S)
		// C07: the configuration a server reports exists in its durable state
		if e.X == "final" || e.X == "quiet" || e.X == "pv-after" {
			c.checkReportedConfig(s, e)
		}
		// C18.2 at rest the last notification equals "is leader"
		isLeader := int(e.B) == Leader
		last := false
		if n := len(s.notes); n > 0 {
			last = s.notes[n-1]
		}
		if (e.X == "final" || e.X == "quiet") && c.notificationPending(s, e.T) {
			// raft is still trying to hand a notification to a consumer that has not taken it yet
			// (it blocks on NotifyCh by design): the server is not at rest as far as C18 goes
			c.cov("rest-point-notification-pending")
		} else if e.X == "final" || e.X == "quiet" {
			c.cov("rest-point")
			if last != isLeader {
				c.violate("C18", "notify-disagrees-at-rest", e.Seq, "%s/%d at rest: State()==Leader is %v but the last NotifyCh value is %v (%d messages)", e.S, e.Ep, isLeader, last, len(s.notes))
			}
			lastL := false
			if n := len(s.lch); n > 0 {
				lastL = s.lch[n-1]
			}
			if lastL != isLeader {
				c.violate("C18", "leaderch-disagrees-at-rest", e.Seq, "%s/%d at rest: State()==Leader is %v but the last LeaderCh value is %v", e.S, e.Ep, isLeader, lastL)
			}
		}
		c.ext.read(c, s, e)
	}
}

func (c *checker) finishNotify() {}

// resetNotes is called when a new incarnation starts.
// notificationPending: raft has made a leadership transition it has not been able to hand to the
// NotifyCh consumer yet. The consumer looks at the channel at least once per NotifyDelay, so after a
// few of those a notification that is still missing was never sent.
func (c *checker) notificationPending(s *server, now int64) bool {
	if len(s.notes) >= s.enters+s.exits {
		return false
	}
	return now-s.lastTransT <= (3*c.notifyDelayMs+1000)*1e6
}

func (s *server) resetNotes() {
	s.notes, s.lch, s.enters, s.exits = nil, nil, 0, 0
}

// checkReportedConfig: GetConfiguration() must return a configuration that is
// in the server's log or in one of its snapshots (at rest).
func (c *checker) checkReportedConfig(s *server, e *sim.Ev) {
	rep := e.P
	c.cov("reported-config-checked")
	if rep == "" {
		if len(s.disk.cfgs) == 0 && s.disk.newest() == nil {
			return
		}
	}
	for _, p := range s.disk.cfgs {
		if p == rep {
			return
		}
	}
	for _, sn := range s.disk.snaps {
		if sn.done && sn.cfg == rep {
			return
		}
	}
	_, lc := s.disk.latestLogCfg()
	c.violate("C07", "phantom-configuration", e.Seq, "%s/%d reports configuration [%s] which is neither in its log nor in its snapshots (latest in its log: [%s])", e.S, e.Ep, rep, lc)
}
