package oracle

import (
	"rv/sim"
)

func (c *checker) hook(e *sim.Ev) {
	s := c.server(e.S)
	key := instKey{e.S, e.Ep}
	switch e.K {
	case "h.state":
		old, nw, term := int(e.A), int(e.B), e.C
		s.state = nw
		if nw == Leader && old != Leader {
			c.cov("leader-elected")
			c.becameLeader(s, key, term, e)
		}
		if old == Leader && nw != Leader {
			for _, l := range c.leadLog {
				if l.key == key && !l.ended {
					how := "stepdown"
					if nw == Shutdown {
						how = "shutdown"
					}
					c.ext.leaderEnded(c, l, e.T, how)
					l.ended, l.endT = true, e.T
				}
			}
			c.cov("leader-stepdown")
		}
		if nw == Candidate {
			c.cov("candidate")
			// C07: a server that is not a voter in its own durable configuration does not
			// campaign (a TimeoutNow from a leadership transfer is the one exception)
			if _, tn := c.timeoutNow[e.S]; !tn {
				_, lc := s.disk.latestLogCfg()
				ok := lc == "" && s.disk.newest() == nil
				if lc != "" && ParseCfg(lc).IsVoter(e.S) {
					ok = true
				}
				for _, p := range s.disk.cfgs {
					if ParseCfg(p).IsVoter(e.S) {
						ok = true // an entry further down may be the one in force after a truncation
					}
				}
				for _, sn := range s.disk.snaps {
					if sn.done && ParseCfg(sn.cfg).IsVoter(e.S) {
						ok = true
					}
				}
				if !ok {
					c.violate("C07", "non-voter-campaigns", e.Seq, "%s became candidate but no configuration in its log or snapshots lists it as a voter (latest in its log: [%s])", key, lc)
				}
			}
		}
		delete(c.timeoutNow, e.S)
		c.ext.state(c, s, key, old, nw, term, e)
	case "h.term":
		old, nw := e.A, e.B
		if nw < old {
			c.violate("C06", "term-decrease", e.Seq, "%s lowered its term from %d to %d", key, old, nw)
		}
		// the hook fires on entry to setCurrentTerm, before the durable write
		if s.pendTermEp != e.Ep {
			s.pendTerm, s.pendTermEp = nil, e.Ep
		}
		s.pendTerm = append(s.pendTerm, pendTermW{v: nw})
		c.ext.term(c, s, key, old, nw, e)
	case "h.elect":
		c.cov("elect-self")
		if s.state != Candidate {
			// the heartbeat fast path (a transport goroutine) turned the candidate into a
			// follower while the main loop was about to start its election (known finding S14)
			s.electNotCandTerm = e.A
			c.cov("elect-while-not-candidate")
		}
	case "h.leader.enter":
		s.enters++
		s.lastTransT = e.T
	case "h.leader.exit":
		s.exits++
		s.lastTransT = e.T
	case "h.commit.leader":
		c.leaderCommit(s, key, e)
	case "h.commit.follower":
		old, nw, last := e.A, e.B, e.C
		c.cov("follower-commit")
		if nw < old {
			c.violate("C05", "commit-index-decrease", e.Seq, "%s lowered its commit index from %d to %d (follower path, leader term %d)", key, old, nw, e.D)
		}
		if nw > last {
			c.violate("C05", "commit-beyond-last", e.Seq, "%s set commit index %d beyond its last index %d", key, nw, last)
		}
		if nw > c.maxLC {
			c.violate("C05", "follower-commit-ahead", e.Seq, "%s set commit index %d but no leader has published more than %d", key, nw, c.maxLC)
		}
		s.commit = nw
	case "h.commit.restore":
		old, nw, last := e.A, e.B, e.C
		c.cov("restore-commit")
		if nw > last {
			c.violate("C05", "commit-beyond-last", e.Seq, "%s restored commit index %d beyond its last index %d", key, nw, last)
		}
		if nw > c.maxLC {
			c.violate("C05", "follower-commit-ahead", e.Seq, "%s restored commit index %d from its store but no leader has published more than %d", key, nw, c.maxLC)
		}
		_ = old
		s.commit = nw
	case "h.applied":
		s.applied = e.B
	case "h.install.applied":
		old, nw := e.A, e.B
		c.cov("install")
		if nw < old {
			c.cov("install-below-applied")
		}
		s.applied = nw
		c.ext.installApplied(c, s, key, old, nw, e)
	case "h.install.done":
		c.cov("install-done")
		if e.A > s.installedMax {
			s.installedMax = e.A
		}
	case "h.config.append":
		commit, latest, committed, start := e.A, e.B, e.C, e.D
		c.cov("config-append")
		c.ext.configAppend(key)
		if latest != committed {
			c.violate("C07", "config-change-while-uncommitted", e.Seq, "%s appends a configuration while the previous one (index %d) is not committed (committed configuration index %d)", key, latest, committed)
		}
		if commit < start {
			c.violate("C07", "config-change-before-own-term-commit", e.Seq, "%s appends a configuration with commit index %d below the first index of its term %d", key, commit, start)
		}
		if committed > commit {
			c.violate("C07", "config-committed-beyond-commit", e.Seq, "%s: committed configuration index %d above commit index %d", key, committed, commit)
		}
	case "h.userrestore.enter", "h.userrestore.done", "h.verify.start", "h.verify.ok", "h.verify.fail", "h.lease.stepdown", "h.dispatch", "h.vote.begin", "h.vote.mid", "h.vote.end":
		c.ext.hook(c, s, key, e)
	}
}

func (c *checker) becameLeader(s *server, key instKey, term uint64, e *sim.Ev) {
	if l := c.leaders[term]; l != nil && l.key != key {
		c.violate("C01", "two-leaders-one-term", e.Seq, "%s and %s both became leader in term %d", l.key, key, term)
	} else if l != nil {
		c.cov("leader-reentered-same-term")
	}
	// whoever wins term T has counted its own vote for T: that is its one vote of that term
	// (electSelf gives up when it cannot record that vote, and peers that were asked before
	// the failed write prove nothing)
	c.recordVote(key.s, term, key.s, e.Seq, "won the election counting its own vote")
	rec := &leaderRec{key: key, term: term, seq: e.Seq, t: e.T}
	if c.leaders[term] == nil {
		c.leaders[term] = rec
	}
	c.leadLog = append(c.leadLog, rec)
	c.ext.reevalMajority(c, e)
	// C07: a server that is not a voter in its latest configuration is never elected
	_, lc := s.disk.latestLogCfg()
	ok := lc == ""
	if lc != "" && ParseCfg(lc).IsVoter(s.name) {
		ok = true
	}
	for _, sn := range s.disk.snaps {
		if sn.done && ParseCfg(sn.cfg).IsVoter(s.name) {
			ok = true
		}
	}
	if !ok {
		c.violate("C07", "non-voter-elected", e.Seq, "%s became leader in term %d but is not a voter in its own configuration %s", key, term, lc)
	}
	// C03.1 leader completeness
	n := 0
	for i, g := range c.G {
		n++
		if !s.disk.holds(i, g.term, g.payload) {
			c.violate("C03", "leader-lacks-committed", e.Seq, "%s became leader in term %d without committed entry %d (term %d, %q; known committed since seq %d via %s)", key, term, i, g.term, g.payload, g.seq, g.src)
			break
		}
	}
	if n > 0 {
		c.cov("leader-completeness-checked")
	}
}

// voterMajorityHolds: is (i, term, payload) held by a strict majority of the
// voters of a configuration in force for index i (see DESIGN section 3)?
func (c *checker) voterMajorityHolds(i, term uint64, payload string) (bool, map[string]bool, int, uint64) {
	holders := map[string]bool{}
	for n, s := range c.srv {
		if s.disk.holds(i, term, payload) {
			holders[n] = true
		}
	}
	type cc struct {
		idx uint64
		cfg string
	}
	var all []cc
	for n, s := range c.srv {
		S := s.disk.maxSnapIndex()
		for j, p := range s.disk.cfgs {
			if j <= S {
				continue // superseded by the server's snapshot (whose configuration is added below)
			}
			if j > i || holders[n] {
				all = append(all, cc{j, p})
			}
		}
		for _, sn := range s.disk.snaps {
			if sn.done {
				all = append(all, cc{sn.cfgIdx, sn.cfg})
			}
		}
	}
	var base, pred uint64
	for _, x := range all {
		if x.idx <= i && x.idx > base {
			base = x.idx
		}
	}
	// When entry i is itself a configuration entry, the configuration it
	// replaces is still "in force" for the decision to commit it (the leader
	// counts its own copy before it switches the tracker to the new set); both
	// the old and the new voter set are accepted during a change.
	if base == i {
		for _, x := range all {
			if x.idx < i && x.idx > pred {
				pred = x.idx
			}
		}
	}
	tried := 0
	for _, x := range all {
		if x.idx == base || x.idx > i || (pred != 0 && x.idx == pred) {
			tried++
			v := ParseCfg(x.cfg).Voters()
			h := 0
			for _, id := range v {
				if holders[id] {
					h++
				}
			}
			if len(v) > 0 && h >= len(v)/2+1 {
				return true, holders, tried, base
			}
		}
	}
	return false, holders, tried, base
}

func (c *checker) addG(i uint64, en sim.Ent, seq uint64, src string, prop string) {
	if g := c.G[i]; g != nil {
		if g.term != en.T || g.payload != en.P || g.ty != en.Ty {
			c.violate(prop, "committed-history-diverges", seq, "index %d: (term %d, type %d, %q) via %s contradicts (term %d, type %d, %q) known committed via %s at seq %d", i, en.T, en.Ty, en.P, src, g.term, g.ty, g.payload, g.src, g.seq)
		}
		return
	}
	c.G[i] = &gent{term: en.T, ty: en.Ty, payload: en.P, seq: seq, src: src}
}

func (c *checker) leaderCommit(s *server, key instKey, e *sim.Ev) {
	old, nw, start, term := e.A, e.B, e.C, e.D
	c.cov("leader-commit")
	if nw < old {
		c.violate("C05", "commit-index-decrease", e.Seq, "leader %s lowered its commit index from %d to %d", key, old, nw)
	}
	_, hi := s.disk.bounds()
	li, _ := s.disk.lastEntry()
	if nw > li && nw > hi {
		c.violate("C05", "commit-beyond-last", e.Seq, "leader %s set commit index %d beyond its last index %d", key, nw, li)
	}
	if nw < start && nw > old {
		c.violate("C05", "old-term-commit", e.Seq, "leader %s (term %d) advanced commit to %d below the first index of its term %d", key, term, nw, start)
	}
	if en, ok := s.disk.logs[nw]; ok && nw > old {
		if en.T != term {
			c.violate("C05", "old-term-commit", e.Seq, "leader %s (term %d) advanced its commit index to %d whose entry has term %d", key, term, nw, en.T)
		}
		ok2, holders, tried, base := c.voterMajorityHolds(nw, en.T, en.P)
		c.cov("majority-checked-at-leader-commit")
		if !ok2 {
			c.violate("C05", "commit-without-voter-majority", e.Seq, "leader %s committed index %d (term %d) held only by %v: no voter majority under %d candidate configurations (base %d)", key, nw, en.T, keys(holders), tried, base)
		}
	}
	from := old
	if s.burned > from {
		from = s.burned
	}
	// what the leader's snapshot covers is applied state; log entries still lying below it say
	// nothing (they can be a stale suffix that survived a snapshot install: known finding S3a)
	if si := s.disk.maxSnapIndex(); si > from {
		from = si
	}
	for i := from + 1; i <= nw; i++ {
		if en, ok := s.disk.logs[i]; ok {
			c.addG(i, en, e.Seq, "leader-commit "+key.String(), "C03")
		}
	}
	if nw > c.maxLC {
		c.maxLC = nw
	}
	s.commit = nw
	c.ext.leaderCommit(c, s, key, e)
}

func keys(m map[string]bool) []string {
	var out []string
	for k := range m {
		out = append(out, k)
	}
	sortStrings(out)
	return out
}
