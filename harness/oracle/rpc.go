package oracle

import (
	"fmt"

	"rv/sim"
)

func (c *checker) rpc(e *sim.Ev) {
	switch e.K {
	case "r.send":
		r := &rpcRec{id: e.A, kind: e.Y, from: instKey{e.S, e.Ep}, to: e.X, term: e.B, c: e.C, d: e.D, e: e.E, z: e.Z, ents: e.Ents, sendSeq: e.Seq, dupOf: e.F, cfg: e.P, data: e.R}
		c.rpcs[r.id] = r
		c.cov("rpc:" + r.kind)
		if r.kind == "ae" || r.kind == "is" {
			// C01.2: only the leader of term T sends AppendEntries / InstallSnapshot with Term=T
			l := c.leaders[r.term]
			if l == nil {
				c.violate("C01", "rpc-from-nonleader", e.Seq, "%s sent %s with term %d but no server entered Leader in that term", r.from, r.kind, r.term)
			} else if l.key != r.from {
				c.violate("C01", "rpc-from-nonleader", e.Seq, "%s sent %s with term %d but the leader of that term is %s", r.from, r.kind, r.term, l.key)
			}
			c.checkLeaderSend(r, e)
		}
	case "r.deliver":
		r := c.rpcs[e.A]
		if r == nil {
			return
		}
		r.delivSeq, r.toKey, r.delivT = e.Seq, instKey{e.S, e.Ep}, e.T
		m := c.inflight[e.S]
		if m == nil {
			m = map[uint64]*rpcRec{}
			c.inflight[e.S] = m
		}
		m[r.id] = r
		c.evalWindow(c.server(e.S), r)
		if r.kind == "tn" {
			c.timeoutNow[e.S] = e.Seq
		}
		c.ext.deliver(c, r, e)
	case "r.resp":
		r := c.rpcs[e.A]
		if r == nil {
			return
		}
		r.respSeq = e.Seq
		if r.kind == "ae" || r.kind == "rv" || r.kind == "is" {
			// the Term field of these responses is the responder's current term (a pre-vote response may
			// carry the proposed term instead)
			c.reportedTerm(e.S, e.Ep, e.C, e.Seq, r.kind+" response")
		}
		if m := c.inflight[e.S]; m != nil {
			delete(m, r.id)
		}
		c.onResponse(r, e)
	case "r.recv":
		r := c.rpcs[e.A]
		if r == nil {
			return
		}
		r.recvSeq = e.Seq
		if r.kind == "is" && e.B == 1 && r.dupOf == 0 {
			// C12 progress: the leader learned that this snapshot is installed; sending
			// the very same snapshot again and again without the follower advancing is a loop.
			f := c.server(r.to)
			k := fmt.Sprintf("%s>%s/%d@%d applied=%d", r.from, r.to, f.ep, r.c, f.applied)
			c.installs[k]++
			if c.installs[k] == 4 {
				c.violate("C12", "reinstall-loop", e.Seq, "leader %s was told %d times that snapshot index %d is installed on %s and keeps sending it while %s's applied index stays %d: catch-up repeats the same transfer", r.from, c.installs[k], r.c, r.to, r.to, f.applied)
			}
		}
		c.ext.recv(c, r, e)
	case "r.drop":
		c.cov("rpc-drop:" + e.X)
	case "r.timeout":
		c.cov("rpc-timeout:" + e.X)
	}
}

// checkLeaderSend: what a leader sends must come from its own log (C04
// "leader building prev from the wrong entry", non-contiguous batches).
func (c *checker) checkLeaderSend(r *rpcRec, e *sim.Ev) {
	if r.kind != "ae" {
		return
	}
	// the previous entry a leader names exists in its own history with that term: in its log,
	// or - when it is the last entry its snapshot covers - in the committed history
	// (checked only while the sender is still in Leader state: a deposed leader's replication
	// routine may send a request it built before its log was truncated by the new leader)
	if p, t := r.c, r.d; p > 0 && c.server(r.from.s).state == Leader {
		d := c.server(r.from.s).disk
		if en, ok := d.logs[p]; ok {
			c.cov("ae-prev-checked-against-leader-log")
			if en.T != t {
				c.violate("C04", "ae-prev-term-not-in-leader-log", e.Seq, "%s sent AE #%d with previous entry (%d, term %d) but its own log holds term %d there", r.from, r.id, p, t, en.T)
			}
		} else if g := c.G[p]; g != nil && p <= d.maxSnapIndex() {
			c.cov("ae-prev-checked-against-committed-history")
			if g.term != t {
				c.violate("C04", "ae-prev-term-not-in-history", e.Seq, "%s sent AE #%d with previous entry (%d, term %d), taken from its snapshot, but the committed entry %d has term %d", r.from, r.id, p, t, p, g.term)
			}
		}
	}
	if len(r.ents) == 0 {
		return
	}
	prev := r.c
	for k, en := range r.ents {
		if en.I != prev+uint64(k)+1 {
			c.violate("C04", "non-contiguous-batch", e.Seq, "%s sent AE #%d with prev %d and entry indexes not contiguous (entry %d has index %d)", r.from, r.id, prev, k, en.I)
			return
		}
	}
}

func cmpUpToDate(candTerm, candIdx, vTerm, vIdx uint64) bool {
	return candTerm > vTerm || (candTerm == vTerm && candIdx >= vIdx)
}

// evalWindow (re-)evaluates the conditions that must hold at some point while
// the receiver handles r: called at delivery and after each of the receiver's
// store operations until the response.
func (c *checker) evalWindow(s *server, r *rpcRec) {
	d := s.disk
	switch r.kind {
	case "rv":
		li, lt := d.lastEntry()
		if cmpUpToDate(r.d, r.c, lt, li) {
			r.okLog = true
		}
		if c.candidateOK(d, r.z) {
			r.okCfg = true
		}
	case "ae":
		if c.aeSatisfied(d, r) {
			r.okAE = true
		}
	}
}

func (c *checker) reevalInflight(s *server, e *sim.Ev) {
	for _, r := range c.inflight[s.name] {
		c.evalWindow(s, r)
	}
}

func (c *checker) candidateOK(d *Disk, cand string) bool {
	_, lc := d.latestLogCfg()
	any := lc != ""
	if lc != "" && ParseCfg(lc).IsVoter(cand) {
		return true
	}
	for _, sn := range d.snaps {
		if sn.done {
			any = true
			if ParseCfg(sn.cfg).IsVoter(cand) {
				return true
			}
		}
	}
	return !any
}

// aeSatisfied: the follower's history (snapshot + log) holds prev and every
// entry sent. An index covered by a complete snapshot counts as held: what a
// snapshot covers is committed history (checked separately by C11 / C02).
func (c *checker) aeSatisfied(d *Disk, r *rpcRec) bool {
	prevIdx, prevTerm := r.c, r.d
	S := d.maxSnapIndex()
	if prevIdx > 0 && prevIdx > S {
		if en, has := d.logs[prevIdx]; !has || en.T != prevTerm {
			return false
		}
	}
	if prevIdx > 0 && prevIdx <= S {
		// boundary: if the snapshot ends exactly there the terms must agree
		for _, sn := range d.snaps {
			if sn.done && sn.index == prevIdx && sn.term != prevTerm {
				return false
			}
		}
	}
	for _, en := range r.ents {
		if en.I <= S {
			continue
		}
		have, has := d.logs[en.I]
		if !has || have.T != en.T || have.P != en.P || have.Ty != en.Ty {
			return false
		}
	}
	return true
}

func (c *checker) recordVote(voter string, term uint64, cand string, seq uint64, how string) {
	k := fmt.Sprintf("%s/%d", voter, term)
	m := c.votes[k]
	if m == nil {
		m = map[string]uint64{}
		c.votes[k] = m
	}
	if _, ok := m[cand]; !ok {
		m[cand] = seq
		if len(m) > 1 {
			var others []string
			for o := range m {
				if o != cand {
					others = append(others, o)
				}
			}
			c.violate("C06", "two-votes-one-term", seq, "%s voted for %s in term %d (%s) after voting for %v in the same term", voter, cand, term, how, others)
		}
	}
}

func (c *checker) onResponse(r *rpcRec, e *sim.Ev) {
	s := c.server(e.S)
	switch r.kind {
	case "rv":
		if e.B == 1 {
			c.cov("vote-granted")
			key := fmt.Sprintf("%s/%d/%s", e.S, r.term, r.z)
			if !c.checkedG[key] {
				// C06.2 (a repeated grant to the same candidate in the same term is exempt:
				// the first one was checked)
				if !r.okLog {
					li, lt := s.disk.lastEntry()
					c.violate("C06", "vote-for-stale-log", e.Seq, "%s granted its vote in term %d to %s whose last entry is (%d, term %d) while its own was never behind that during the exchange (now %d, term %d)", e.S, r.term, r.z, r.c, r.d, li, lt)
				}
				if !r.okCfg {
					_, lc := s.disk.latestLogCfg()
					c.violate("C06", "vote-for-non-voter", e.Seq, "%s granted its vote in term %d to %s which is not a voter in its configuration (%s)", e.S, r.term, r.z, lc)
				}
				c.checkedG[key] = true
			}
			c.recordVote(e.S, r.term, r.z, e.Seq, "granted RequestVote")
		} else {
			c.cov("vote-refused")
		}
	case "pv":
		if e.B == 1 {
			c.cov("prevote-granted")
		}
	case "ae":
		if e.B == 1 {
			c.cov("ae-success")
			if len(r.ents) > 0 {
				c.cov("ae-success-with-entries")
			}
			// C04.2
			if !r.okAE {
				c.violate("C04", "ae-success-without-match", e.Seq, "%s answered AE #%d (prev %d/%d, %d entries) with success but its log never contained prev and all entries during the exchange", e.S, r.id, r.c, r.d, len(r.ents))
			}
		} else {
			c.cov("ae-reject")
		}
	case "is":
		if e.B == 1 {
			c.cov("install-success")
		}
	}
	c.ext.resp(c, r, e)
}

// reportedTerm (C06.3): the term a server shows to the outside - in its responses, through CurrentTerm() - never
// decreases, in particular not across a crash: whatever it has reported must have been durable. Reports of one
// incarnation are logged by concurrent goroutines, so only reports of different incarnations are compared (everything
// an incarnation logs precedes its crash in the event log).
func (c *checker) reportedTerm(name string, ep int, t uint64, seq uint64, what string) {
	s := c.server(name)
	if ep > s.repEpoch {
		if s.repMaxCur > s.repMaxPrev {
			s.repMaxPrev, s.repMaxPrevWhat = s.repMaxCur, s.repMaxCurWhat
		}
		s.repEpoch, s.repMaxCur = ep, 0
	} else if ep < s.repEpoch {
		return
	}
	c.cov("reported-term")
	if t < s.repMaxPrev {
		c.violate("C06", "reported-term-decrease", seq, "%s/%d reports term %d (%s) although an earlier incarnation had reported term %d (%s): the term it showed was not durable", name, ep, t, what, s.repMaxPrev, s.repMaxPrevWhat)
	}
	if t > s.repMaxCur {
		s.repMaxCur, s.repMaxCurWhat = t, what
	}
}
