package oracle

import (
	"rv/sim"
)

// diskOp replays one store operation on the reconstructed image and runs the
// monitors that are evaluated "after every store op".
func (c *checker) diskOp(e *sim.Ev) {
	s := c.server(e.S)
	d := s.disk
	switch e.K {
	case "d.store":
		c.cov("op:store")
		lo, hi := d.bounds()
		for _, en := range e.Ents {
			if old, ok := d.logs[en.I]; ok {
				// overwrite: C03.2
				if g := c.G[en.I]; g != nil && g.term == old.T && g.payload == old.P && (old.T != en.T || old.P != en.P) && d.maxSnapIndex() < en.I {
					c.violate("C03", "committed-overwritten", e.Seq, "%s overwrote committed entry %d (term %d, %q) with (term %d, %q)", e.S, en.I, old.T, old.P, en.T, en.P)
				}
				c.cov("store:overwrite")
			}
			if en.Ty == LogCommand {
				c.stored[en.P] = true
				c.storedAt(s, en, e.Seq)
			}
			d.put(en)
			if e.D == 1 {
				d.cstamp[en.I], d.hasSt[en.I] = e.C, true
			} else {
				delete(d.cstamp, en.I)
				delete(d.hasSt, en.I)
			}
		}
		_ = lo
		_ = hi
		s.sinceSnapClose = false
		c.checkTermsMonotone(s, e)
		c.checkUncommittedConfigs(s, e)
	case "d.del.prefix", "d.del.suffix", "d.del.all", "d.del.mid", "d.del.empty":
		c.cov("op:" + e.K[2:])
		c.deleteRange(s, e)
	case "d.setu.CurrentTerm":
		// C06.3: the durable term never decreases (memory follows the durable value)
		// which setCurrentTerm call is this the write of? More than one call pending means that two
		// goroutines of this incarnation are inside setCurrentTerm at once (the main loop and the
		// transport's heartbeat fast path share no lock): their writes land in either order.
		raced := false
		if s.pendTermEp == e.Ep {
			if len(s.pendTerm) > 1 {
				for i := range s.pendTerm {
					s.pendTerm[i].raced = true
				}
				c.cov("concurrent-term-writers")
			}
			for i, p := range s.pendTerm {
				if p.v == e.A {
					raced = p.raced
					s.pendTerm = append(s.pendTerm[:i], s.pendTerm[i+1:]...)
					break
				}
			}
		}
		if e.A < d.kvi["CurrentTerm"] {
			sig := "durable-term-decrease"
			if raced {
				sig = "durable-term-decrease-by-concurrent-writers"
				s.termRaced = true
			}
			c.violate("C06", sig, e.Seq, "%s overwrote its durable term %d with %d", e.S, d.kvi["CurrentTerm"], e.A)
		}
		d.kvi["CurrentTerm"] = e.A
		if e.A > s.maxTerm {
			s.maxTerm = e.A
		}
		c.cov("op:setterm")
	case "d.setu.LastVoteTerm":
		d.kvi["LastVoteTerm"] = e.A
		s.pendVoteT, s.havePendV = e.A, true
		c.cov("op:votet")
		c.votePair(s, e)
	case "d.set.LastVoteCand":
		d.kv["LastVoteCand"] = e.Y
		s.pendVoteC, s.havePendC = e.Y, true
		c.cov("op:votec")
		c.votePair(s, e)
	case "d.snap.create":
		d.nsnap++
		d.snaps = append(d.snaps, &snapRec{id: e.X, index: e.A, term: e.B, cfgIdx: e.C, cfg: e.Y, seq: d.nsnap})
		s.truncSinceCreate = false
		c.cov("op:snap.create")
	case "d.snap.damage":
		for _, sn := range d.snaps {
			if sn.id == e.X {
				sn.damaged = true
			}
		}
		c.cov("snapshot-damaged")
		return
	case "d.snap.write":
		c.cov("op:snap.write")
	case "d.snap.close":
		c.cov("op:snap.close")
		for _, sn := range d.snaps {
			if sn.id == e.X {
				sn.done, sn.content = true, e.Y
				if sn.index > s.applied && sn.index > s.installedMax {
					// ahead of what this server has applied: not a snapshot of its own state but one it
					// received (complete on disk from here on, even if the server crashes before using it)
					s.installedMax = sn.index
				}
				c.snapsPending = append(c.snapsPending, snapCheck{key: instKey{e.S, e.Ep}, index: sn.index, term: sn.term, cfg: sn.cfg, cfgIdx: sn.cfgIdx, content: sn.content, seq: e.Seq})
			}
		}
		d.retain2()
		s.sinceSnapClose = true
	case "d.snap.cancel":
		c.cov("op:snap.cancel")
		for i, sn := range d.snaps {
			if sn.id == e.X {
				d.snaps = append(d.snaps[:i], d.snaps[i+1:]...)
				break
			}
		}
	case "d.stage":
		c.cov("op:stage")
		return
	case "d.err":
		c.cov("op:error:" + e.Z)
		return
	case "d.refuse":
		c.cov("op:refused-noncontiguous")
		return
	default:
		return
	}
	c.checkDiskInvariant(s, e)
	c.reevalInflight(s, e)
}

// storedAt: C08 "at most once" — one payload never sits at two indexes of a disk.
func (c *checker) storedAt(s *server, en sim.Ent, seq uint64) {
	if i, ok := s.disk.cmdAt[en.P]; ok && i != en.I && en.P != "" {
		c.violate("C08", "payload-stored-twice", seq, "%s holds command %q at index %d and %d", s.name, en.P, i, en.I)
	}
}

// C04: within one log, terms never decrease as the index grows.
func (c *checker) checkTermsMonotone(s *server, e *sim.Ev) {
	d := s.disk
	for _, en := range e.Ents {
		if p, ok := d.logs[en.I-1]; ok && p.T > en.T {
			c.violate("C04", "term-decreases-in-log", e.Seq, "%s: entry %d has term %d after entry %d with term %d", s.name, en.I, en.T, en.I-1, p.T)
		}
		if n, ok := d.logs[en.I+1]; ok && n.T < en.T {
			c.violate("C04", "term-decreases-in-log", e.Seq, "%s: entry %d has term %d before entry %d with term %d", s.name, en.I, en.T, en.I+1, n.T)
		}
	}
}

// C07: no log ever holds two uncommitted configurations.
func (c *checker) checkUncommittedConfigs(s *server, e *sim.Ev) {
	hasCfg := false
	for _, en := range e.Ents {
		if en.Ty == LogConfiguration {
			hasCfg = true
		}
	}
	if !hasCfg {
		return
	}
	c.cov("cfg-entry-stored")
	c.ext.reevalMajority(c, e)
	n := 0
	var idx []uint64
	for i := range s.disk.cfgs {
		if i > c.maxLC {
			n++
			idx = append(idx, i)
		}
	}
	if n > 1 {
		c.violate("C07", "two-uncommitted-configs", e.Seq, "%s holds %d configuration entries %v above the highest commit index known anywhere (%d)", s.name, n, idx, c.maxLC)
	}
}

// C11 disk invariant: every index in (S, last] is in the log, and the log
// does not start above S+1.
func (c *checker) checkDiskInvariant(s *server, e *sim.Ev) {
	d := s.disk
	lo, hi := d.bounds()
	if hi == 0 {
		return
	}
	S := d.maxSnapIndex()
	if hi <= S {
		return
	}
	// contiguity of (S, hi]
	cnt := uint64(0)
	for i := range d.logs {
		if i > S {
			cnt++
		}
	}
	if cnt != hi-S {
		first := uint64(0)
		for i := S + 1; i <= hi; i++ {
			if _, ok := d.logs[i]; !ok {
				first = i
				break
			}
		}
		c.violate("C11", "hole-above-snapshot", e.Seq, "%s after %s: index %d is neither in the log (first %d, last %d) nor covered by a snapshot (newest covers %d)", s.name, e.K, first, lo, hi, S)
	}
}

func (c *checker) deleteRange(s *server, e *sim.Ev) {
	d := s.disk
	min, max := e.A, e.B
	lo, hi := d.bounds()
	if lo == 0 {
		return
	}
	S := d.maxSnapIndex()
	// Is this the suffix truncation of an AppendEntries conflict? It is if a
	// delivered, unanswered AE to this server carries an entry at index `min`
	// whose term differs from the stored one.
	trunc := false
	var ae *rpcRec
	for _, r := range c.inflight[s.name] {
		if r.kind != "ae" || (min == lo && max <= S) {
			// a delete from the first index on that stays under the snapshot is the compaction of
			// the snapshot routine, whatever AppendEntries happens to be in flight at that moment
			continue
		}
		for _, en := range r.ents {
			if en.I == min {
				if old, ok := d.logs[min]; ok && old.T != en.T {
					trunc, ae = true, r
				}
			}
		}
	}
	if trunc {
		c.cov("truncation")
		s.truncSinceCreate, s.truncT = true, e.T
		// C04.3: truncation starts exactly at the first sent index whose stored term differs
		for _, en := range ae.ents {
			if en.I <= S {
				continue // covered by the snapshot: the follower neither compares nor replaces what its log holds there
			}
			old, ok := d.logs[en.I]
			if !ok {
				break
			}
			if old.T != en.T {
				if en.I != min {
					c.violate("C04", "truncate-wrong-start", e.Seq, "%s truncated from %d but the first conflicting index of AE #%d is %d", s.name, min, ae.id, en.I)
				}
				break
			}
		}
		if max < hi {
			c.violate("C04", "truncate-leaves-tail", e.Seq, "%s truncated [%d,%d] but its log reaches %d", s.name, min, max, hi)
		}
	} else if min > lo && max >= hi && min <= hi {
		// a suffix delete with no conflicting AE in flight
		c.violate("C04", "delete-without-conflict", e.Seq, "%s deleted suffix [%d,%d] (log %d..%d) with no AppendEntries in flight that conflicts at %d", s.name, min, max, lo, hi, min)
		s.truncSinceCreate = true
	} else {
		// compaction or wholesale reset
		c.cov("compaction")
		if max > S && max >= lo {
			reset := c.monotonic && s.sinceSnapClose && min <= lo && max >= hi
			if reset {
				c.cov("wholesale-reset")
			} else {
				c.violate("C11", "compaction-past-snapshot", e.Seq, "%s deleted [%d,%d] (log %d..%d) but its newest snapshot covers only %d", s.name, min, max, lo, hi, S)
			}
		} else if max >= lo && !(s.truncSinceCreate && s.truncT == e.T) {
			// (a truncation in the very instant of the compaction is a race between the main loop and the
			// snapshot routine about the log head; at any other time the head the compaction sees is current)
			// routine compaction: leaves at least TrailingLogs entries when that many exist
			have := hi - lo + 1
			remain := uint64(0)
			if hi > max {
				remain = hi - max
			}
			want := s.trailingOr(c.trailing)
			if want > have {
				want = have
			}
			if remain < want && !(c.monotonic && s.sinceSnapClose && max >= hi) {
				c.violate("C11", "compaction-ignores-trailing", e.Seq, "%s compacted [%d,%d] leaving %d entries of %d (TrailingLogs %d)", s.name, min, max, remain, have, c.trailing)
			}
		}
	}
	// C03.2: no committed entry may disappear unless a durable snapshot covers it
	for i := min; i <= max && i <= hi; i++ {
		old, ok := d.logs[i]
		if !ok {
			continue
		}
		if g := c.G[i]; g != nil && g.term == old.T && g.payload == old.P && S < i {
			c.violate("C03", "committed-deleted", e.Seq, "%s deleted committed entry %d (term %d, %q) not covered by a snapshot (newest covers %d)", s.name, i, old.T, old.P, S)
			break
		}
	}
	for i := range d.logs {
		if i >= min && i <= max {
			d.del(i)
			delete(d.cstamp, i)
			delete(d.hasSt, i)
		}
	}
}

func (s *server) trailingOr(def uint64) uint64 { return def }

// votePair: a vote is durably cast when both writes of one persistVote call
// (in either order) have been made by the same incarnation.
func (c *checker) votePair(s *server, e *sim.Ev) {
	if s.havePendV && s.havePendC {
		c.recordVote(s.name, s.pendVoteT, s.pendVoteC, e.Seq, "durable record")
		s.havePendV, s.havePendC = false, false
	}
}
