package oracle

import (
	"fmt"
	"sort"

	"rv/sim"
)

// pairwiseLogMatching: C04.1, evaluated on the reconstructed disks at a rest
// point: if two logs hold an entry with the same index and term they are
// identical at every index both retain up to there.
func (c *checker) pairwiseLogMatching(seq uint64, where string) {
	names := append([]string(nil), c.order...)
	for i := 0; i < len(names); i++ {
		for j := i + 1; j < len(names); j++ {
			a, b := c.srv[names[i]].disk, c.srv[names[j]].disk
			var top uint64
			for k, ea := range a.logs {
				if eb, ok := b.logs[k]; ok && eb.T == ea.T && k > top {
					top = k
				}
			}
			if top == 0 {
				continue
			}
			c.cov("log-pairs-compared")
			for k, ea := range a.logs {
				eb, ok := b.logs[k]
				if !ok || k > top {
					continue
				}
				if ea.T != eb.T || ea.P != eb.P || ea.Ty != eb.Ty {
					sig := "logs-differ-below-common-entry"
					if k <= a.maxSnapIndex() || k <= b.maxSnapIndex() {
						// the differing entry sits under a snapshot of one of the two
						sig = "stale-entry-under-snapshot-differs"
					}
					// known finding S3a: the side that contradicts the committed history keeps the
					// entry below a snapshot it *installed* from a leader (a gap-tolerant store is not
					// emptied when the log does not continue the snapshot)
					for _, side := range []struct {
						n    string
						e, o sim.Ent
					}{{names[i], ea, eb}, {names[j], eb, ea}} {
						stale := false
						if g := c.G[k]; g != nil {
							stale = side.e.T != g.term || side.e.P != g.payload
						} else {
							// nothing is known committed at k (a user restore jumped over it): of two
							// entries below a common later entry the one with the lower term is the stale one
							stale = side.e.T < side.o.T
						}
						if stale && k <= c.srv[side.n].installedMax {
							sig = "stale-entry-under-installed-snapshot"
						}
					}
					c.violate("C04", sig, seq, "%s: %s and %s both hold (index %d, term %d) but differ at index %d: (term %d, %q) vs (term %d, %q)", where, names[i], names[j], top, a.logs[top].T, k, ea.T, ea.P, eb.T, eb.P)
					break
				}
			}
		}
	}
}

// finishTail: C12 bounded-progress restatement, evaluated on the readings
// taken after the convergence budget of the quiet tail.
func (c *checker) finishTail() {
	if c.tailEnd == 0 || len(c.finalReads) == 0 {
		c.cov("no-tail")
		return
	}
	var up []sim.Ev
	for _, r := range c.finalReads {
		if r.Z != "down" {
			up = append(up, r)
		}
	}
	var leaders []sim.Ev
	for _, r := range up {
		if int(r.B) == Leader {
			leaders = append(leaders, r)
		}
	}
	// raft blocks on NotifyCh by design: a server that is still handing a leadership notification
	// to a consumer that has not taken it can neither lead nor follow properly, and that is the
	// consumer's doing - the bounded-progress readings say nothing about raft then
	for _, r := range up {
		if s := c.server(r.S); c.notificationPending(s, r.T) {
			c.cov("tail-notification-pending")
			return
		}
	}
	// probe result
	var probe *call
	for _, cl := range c.callList {
		if cl.client == 14 && cl.op == "apply" {
			probe = cl
		}
	}
	if len(leaders) != 1 {
		sig, why := c.classifyNoLeader(up)
		c.violate("C12", sig, c.tailEnd, "after the convergence budget %d servers report Leader (%s); final states: %s", len(leaders), why, describeReads(up))
		return
	}
	c.cov("tail-one-leader")
	c.checkPreProbe()
	L := leaders[0]
	if probe == nil || !probe.returned || probe.err != "" {
		e := "not issued"
		if probe != nil {
			e = probe.err
			if probe.stranded {
				e = "stranded"
			}
		}
		sig := "probe-write-failed"
		if b := c.brokenVoterOf(L.S); b != "" {
			sig, e = "probe-write-failed-behind-unreplicated-user-restore", e+" (the leader needs voter "+b+", which is stuck behind its own unreplicated user restore)"
		}
		c.violate("C12", sig, c.tailEnd, "after the convergence budget the leader %s did not accept a write: %s", L.S, e)
		return
	}
	c.cov("tail-probe-ok")
	cfg := ParseCfg(L.P)
	for _, r := range up {
		if r.S == L.S || !cfg.Has(r.S) {
			continue
		}
		c.cov("tail-member-checked")
		suffix := ""
		for _, u := range c.userRestores {
			if u.key.s == r.S && !c.restoreAdopted(u) {
				// this member performed a user restore that never got replicated (the
				// cluster committed an ordinary entry at the index it burned)
				suffix = "-after-unreplicated-user-restore"
			}
		}
		// C20: after a user restore that the cluster adopted every member ends up on the restored lineage
		restored := false
		for _, op := range c.ext.restores {
			if op.done && op.call != nil && op.call.returned && op.call.err == "" {
				for _, u := range c.userRestores {
					if u.burned == op.burned && c.restoreAdopted(u) {
						restored = true
					}
				}
			}
		}
		if restored && suffix == "" && (r.E < probe.index || r.F != L.F) {
			c.violate("C20", "member-not-on-restored-state", c.tailEnd, "a user Restore returned nil and the cluster went on from it, but after the quiet tail %s (applied %d, state %q) does not hold the leader's state (%s applied %d, state %q)", r.S, r.E, r.R, L.S, L.E, L.R)
		}
		if r.E < probe.index {
			c.violate("C12", "member-not-caught-up"+suffix, c.tailEnd, "%s (in the leader's configuration, connected) has applied index %d < probe index %d after the convergence budget; leader %s applied %d; %s", r.S, r.E, probe.index, L.S, L.E, describeReads(up))
			continue
		}
		if r.F != L.F {
			c.violate("C12", "member-state-differs"+suffix, c.tailEnd, "%s has applied up to %d but its FSM state %q differs from the leader's %q", r.S, r.E, r.R, L.R)
		}
	}
	// C03.3 end state: every running member holds all committed entries
	for _, r := range up {
		if !cfg.Has(r.S) {
			continue
		}
		s := c.server(r.S)
		for i, g := range c.G {
			if g.seq > c.tailEnd {
				continue // committed after the final readings (during the shutdown phase)
			}
			if !s.disk.holds(i, g.term, g.payload) {
				if r.E < probe.index {
					break // already reported as not caught up
				}
				c.violate("C03", "member-lacks-committed-at-end", c.tailEnd, "%s lacks committed entry %d (term %d, %q) after the quiet tail", r.S, i, g.term, g.payload)
				break
			}
		}
	}
}

func describeReads(rs []sim.Ev) string {
	out := ""
	sort.Slice(rs, func(i, j int) bool { return rs[i].S < rs[j].S })
	for _, r := range rs {
		out += fmt.Sprintf("[%s state=%d term=%d last=%d commit=%d applied=%d leader=%q cfg=%s] ", r.S, r.B, r.A, r.C, r.D, r.E, r.Y, r.P)
	}
	return out
}

// classifyNoLeader decides, from the final disks, whether some server could
// win an election by the code's own rules. If one could, the missing leader
// is an ordinary violation; if none can, the blocking reason selects the
// signature of a structural dead end (DESIGN section 4, S8/S9).
func (c *checker) classifyNoLeader(up []sim.Ev) (string, string) {
	if len(up) == 0 {
		return "no-server-running", "no server is running"
	}
	type view struct {
		name   string
		cfg    Config
		li, lt uint64
		hasCfg bool
	}
	var vs []view
	for _, r := range up {
		s := c.server(r.S)
		v := view{name: r.S, cfg: ParseCfg(r.P)}
		v.hasCfg = len(v.cfg) > 0
		v.li, v.lt = s.disk.lastEntry()
		vs = append(vs, v)
	}
	byName := map[string]view{}
	for _, v := range vs {
		byName[v.name] = v
	}
	anyCampaigner := false
	reasons := map[string]int{}
	for _, cnd := range vs {
		if !cnd.cfg.IsVoter(cnd.name) {
			continue
		}
		// a server that was removed from the cluster and never learnt it (another server with a
		// strictly more up-to-date log has a configuration without it) keeps campaigning in vain,
		// legitimately: the refusals it meets do not explain why the cluster has no leader
		removed := false
		for _, v := range vs {
			if v.name != cnd.name && v.hasCfg && !v.cfg.Has(cnd.name) && !cmpUpToDate(cnd.lt, cnd.li, v.lt, v.li) {
				removed = true
			}
		}
		if removed {
			continue
		}
		anyCampaigner = true
		voters := cnd.cfg.Voters()
		grants := 0
		for _, vn := range voters {
			if vn == cnd.name {
				grants++
				continue
			}
			v, ok := byName[vn]
			if !ok {
				reasons["voter-down"]++
				continue
			}
			if v.hasCfg && !v.cfg.IsVoter(cnd.name) {
				if v.cfg.Has(cnd.name) {
					reasons["candidate-nonvoter-in-voters-config"]++
				} else {
					reasons["not-in-configuration"]++
				}
				continue
			}
			if !cmpUpToDate(cnd.lt, cnd.li, v.lt, v.li) {
				if !v.cfg.IsVoter(v.name) {
					reasons["log-behind-refusal-by-non-campaigner"]++
				} else {
					reasons["log-behind"]++
				}
				continue
			}
			grants++
		}
		if grants >= len(voters)/2+1 {
			return "no-leader-after-budget", fmt.Sprintf("%s could win an election (%d of %d votes available)", cnd.name, grants, len(voters))
		}
	}
	if !anyCampaigner {
		return "no-leader-nobody-may-campaign", "no running server is a voter in its own latest configuration"
	}
	if reasons["not-in-configuration"] > 0 || reasons["candidate-nonvoter-in-voters-config"] > 0 {
		// S9: a voter whose own (stale) configuration does not list the candidate as a voter refuses it,
		// and only a leader could bring that voter's configuration up to date
		return "no-leader-stale-config-voter", fmt.Sprintf("nobody can win: %v", reasons)
	}
	if reasons["log-behind-refusal-by-non-campaigner"] > 0 {
		return "no-leader-self-demoted-holder", fmt.Sprintf("nobody can win: %v", reasons)
	}
	return "no-leader-structural", fmt.Sprintf("nobody can win: %v", reasons)
}

// checkPreProbe: after the convergence wait and before anything new is written, every running
// member of the leader's configuration has applied what the leader had committed: catching up must
// not depend on further writes arriving.
func (c *checker) checkPreProbe() {
	var up, leaders []sim.Ev
	for _, r := range c.preReads {
		if r.Z == "down" {
			continue
		}
		up = append(up, r)
		if int(r.B) == Leader {
			leaders = append(leaders, r)
		}
	}
	if len(leaders) != 1 {
		return // the readings after the probe decide about the leader
	}
	for _, r := range up {
		if s := c.server(r.S); c.notificationPending(s, r.T) {
			return
		}
	}
	L := leaders[0]
	cfg := ParseCfg(L.P)
	c.cov("preprobe-checked")
	for _, r := range up {
		if r.S == L.S || !cfg.Has(r.S) {
			continue
		}
		suffix := ""
		for _, u := range c.userRestores {
			if u.key.s == r.S && !c.restoreAdopted(u) {
				suffix = "-after-unreplicated-user-restore"
			}
		}
		if r.E < L.D {
			c.violate("C12", "member-not-caught-up"+suffix, c.tailProbe, "before the probe write: %s (in the leader's configuration, connected) has applied index %d < the leader's commit index %d although the convergence budget is over and nothing new is being written; %s", r.S, r.E, L.D, describeReads(up))
		}
	}
}
