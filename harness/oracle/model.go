// Package oracle contains the offline checkers. Check is a pure function of
// the recorded event log of one execution: it replays every store operation
// to reconstruct each server's durable image at every sequence number and
// evaluates the property monitors with that state in hand.
package oracle

import (
	"fmt"
	"sort"
	"strings"

	"rv/sim"
)

// Log types (raft.LogType values).
const (
	LogCommand       = 0
	LogNoop          = 1
	LogAddPeer       = 2
	LogRemovePeer    = 3
	LogBarrier       = 4
	LogConfiguration = 5
)

// Raft states.
const (
	Follower  = 0
	Candidate = 1
	Leader    = 2
	Shutdown  = 3
)

// Violation is one failed check.
type Violation struct {
	Prop string `json:"prop"`
	Sig  string `json:"sig"` // stable signature of the failure mode (used for known findings)
	Msg  string `json:"msg"`
	Seq  uint64 `json:"seq"`
}

// Result of checking one execution.
type Result struct {
	Violations []Violation        `json:"violations"`
	Cov        map[string]int     `json:"cov"`
	Notes      []string           `json:"notes,omitempty"`
	Lat        map[string][]int64 `json:"lat,omitempty"` // measured latencies (virtual ms) per metric
}

type srvCfg struct {
	ID, Addr string
	Suff     byte // 'V','N','S'
}

// Config is a parsed configuration string.
type Config []srvCfg

func ParseCfg(s string) Config {
	var c Config
	if s == "" {
		return c
	}
	for _, part := range strings.Split(s, ",") {
		eq := strings.IndexByte(part, '=')
		at := strings.IndexByte(part, '@')
		if eq < 0 || at < eq+2 {
			continue
		}
		c = append(c, srvCfg{ID: part[:eq], Suff: part[eq+1], Addr: part[at+1:]})
	}
	return c
}

func (c Config) Voters() []string {
	var v []string
	for _, s := range c {
		if s.Suff == 'V' {
			v = append(v, s.ID)
		}
	}
	return v
}

func (c Config) IsVoter(id string) bool {
	for _, s := range c {
		if s.ID == id {
			return s.Suff == 'V'
		}
	}
	return false
}

func (c Config) Has(id string) bool {
	for _, s := range c {
		if s.ID == id {
			return true
		}
	}
	return false
}

type snapRec struct {
	id      string
	index   uint64
	term    uint64
	cfg     string
	cfgIdx  uint64
	content string
	done    bool
	damaged bool // made unreadable by the nemesis while the server was down
	seq     int
}

// Disk is a reconstructed durable image.
type Disk struct {
	logs   map[uint64]sim.Ent
	cstamp map[uint64]uint64
	hasSt  map[uint64]bool
	kv     map[string]string
	kvi    map[string]uint64
	snaps  []*snapRec
	nsnap  int
	cfgs   map[uint64]string // configuration entries in the log (index -> cfg)
	cmdAt  map[string]uint64 // command payload -> index in the log
}

func newDisk() *Disk {
	return &Disk{logs: map[uint64]sim.Ent{}, cstamp: map[uint64]uint64{}, hasSt: map[uint64]bool{}, kv: map[string]string{}, kvi: map[string]uint64{},
		cfgs: map[uint64]string{}, cmdAt: map[string]uint64{}}
}

// put / del keep the secondary indexes in step with logs.
func (d *Disk) put(en sim.Ent) {
	d.del(en.I)
	d.logs[en.I] = en
	switch en.Ty {
	case LogConfiguration:
		d.cfgs[en.I] = en.P
	case LogCommand:
		if en.P != "" {
			d.cmdAt[en.P] = en.I
		}
	}
}

func (d *Disk) del(i uint64) {
	old, ok := d.logs[i]
	if !ok {
		return
	}
	delete(d.logs, i)
	switch old.Ty {
	case LogConfiguration:
		delete(d.cfgs, i)
	case LogCommand:
		if d.cmdAt[old.P] == i {
			delete(d.cmdAt, old.P)
		}
	}
}

func (d *Disk) bounds() (lo, hi uint64) {
	for k := range d.logs {
		if lo == 0 || k < lo {
			lo = k
		}
		if k > hi {
			hi = k
		}
	}
	return
}

func snapOlder(a, b *snapRec) bool {
	if a.term != b.term {
		return a.term < b.term
	}
	if a.index != b.index {
		return a.index < b.index
	}
	return a.seq < b.seq
}

// newest returns the newest complete snapshot by (term, index, seq), or nil.
func (d *Disk) newest() *snapRec {
	var best *snapRec
	for _, s := range d.snaps {
		if s.done && (best == nil || snapOlder(best, s)) {
			best = s
		}
	}
	return best
}

// newestUsable is the newest complete snapshot that still opens.
func (d *Disk) newestUsable() *snapRec {
	var best *snapRec
	for _, s := range d.snaps {
		if s.done && !s.damaged && (best == nil || snapOlder(best, s)) {
			best = s
		}
	}
	return best
}

// maxSnapIndex is the largest index covered by any complete snapshot.
func (d *Disk) maxSnapIndex() uint64 {
	var m uint64
	for _, s := range d.snaps {
		if s.done && s.index > m {
			m = s.index
		}
	}
	return m
}

// lastEntry returns the (index, term) raft would report as its last entry:
// the log tail or the newest snapshot boundary, whichever is later.
func (d *Disk) lastEntry() (uint64, uint64) {
	_, hi := d.bounds()
	var li, lt uint64
	if hi > 0 {
		li, lt = hi, d.logs[hi].T
	}
	if s := d.newest(); s != nil && s.index > li {
		return s.index, s.term
	}
	return li, lt
}

// latestCfg returns the highest-index configuration entry in the log
// (index, cfg) or (0, "").
func (d *Disk) latestLogCfg() (uint64, string) {
	// entries at or below a complete snapshot are superseded by the snapshot's
	// own configuration (a stale, never truncated entry may still sit there)
	S := d.maxSnapIndex()
	var bi uint64
	var bc string
	for i, p := range d.cfgs {
		if i > bi && i > S {
			bi, bc = i, p
		}
	}
	return bi, bc
}

// holds reports whether the image holds entry (i, term, payload) in its log,
// or covers index i with a complete snapshot.
func (d *Disk) holds(i, term uint64, payload string) bool {
	if e, ok := d.logs[i]; ok && e.T == term && e.P == payload {
		return true
	}
	return d.maxSnapIndex() >= i
}

func (d *Disk) dropUnfinished() {
	var keep []*snapRec
	for _, s := range d.snaps {
		if s.done {
			keep = append(keep, s)
		}
	}
	d.snaps = keep
}

func (d *Disk) retain2() {
	var done []*snapRec
	for _, s := range d.snaps {
		if s.done {
			done = append(done, s)
		}
	}
	sort.Slice(done, func(i, j int) bool { return snapOlder(done[j], done[i]) })
	drop := map[*snapRec]bool{}
	for i := 2; i < len(done); i++ {
		drop[done[i]] = true
	}
	var keep []*snapRec
	for _, s := range d.snaps {
		if !drop[s] {
			keep = append(keep, s)
		}
	}
	d.snaps = keep
}

// gent is an entry of the agreed history G.
type gent struct {
	term    uint64
	ty      uint8
	payload string
	seq     uint64 // when it became known committed
	src     string
}

func (c *checker) violate(prop, sig string, seq uint64, f string, a ...interface{}) {
	key := prop + "|" + sig
	c.vcount[key]++
	if c.vcount[key] > 3 { // keep a few instances of each failure mode
		return
	}
	c.res.Violations = append(c.res.Violations, Violation{Prop: prop, Sig: sig, Msg: fmt.Sprintf(f, a...), Seq: seq})
}

func (c *checker) cov(k string) { c.res.Cov[k]++ }

func (c *checker) lat(k string, ms int64) {
	if c.res.Lat == nil {
		c.res.Lat = map[string][]int64{}
	}
	if len(c.res.Lat[k]) < 64 {
		c.res.Lat[k] = append(c.res.Lat[k], ms)
	}
}
