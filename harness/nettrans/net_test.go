// Package nettrans is the NET engine (C16): two real NetworkTransports, a
// recording consumer on the receiving side, generated messages carrying
// unique tags, and fault-injecting connections. No oracle looks at time.
package nettrans

import (
	"bytes"
	"errors"
	"fmt"
	"io"
	"math/rand"
	"net"
	"reflect"
	"strings"
	"sync"
	"testing"
	"time"

	"github.com/hashicorp/go-hclog"
	"github.com/hashicorp/raft"

	"rv/table"
)

// ---------- in-memory stream layer with fault injection ----------

type pipeNet struct {
	mu    sync.Mutex
	lists map[string]*pipeLayer
	plan  func() *connFault // fault plan for the next dialed connection (client side)
}

type pipeLayer struct {
	pn     *pipeNet
	addr   string
	accept chan net.Conn
	closed chan struct{}
	once   sync.Once
}

type pipeAddr string

func (a pipeAddr) Network() string { return "pipe" }
func (a pipeAddr) String() string  { return string(a) }

func (pn *pipeNet) layer(addr string) *pipeLayer {
	l := &pipeLayer{pn: pn, addr: addr, accept: make(chan net.Conn, 64), closed: make(chan struct{})}
	pn.mu.Lock()
	pn.lists[addr] = l
	pn.mu.Unlock()
	return l
}

func (l *pipeLayer) Accept() (net.Conn, error) {
	select {
	case c := <-l.accept:
		return c, nil
	case <-l.closed:
		return nil, errors.New("listener closed")
	}
}
func (l *pipeLayer) Close() error   { l.once.Do(func() { close(l.closed) }); return nil }
func (l *pipeLayer) Addr() net.Addr { return pipeAddr(l.addr) }
func (l *pipeLayer) Dial(address raft.ServerAddress, timeout time.Duration) (net.Conn, error) {
	l.pn.mu.Lock()
	peer := l.pn.lists[string(address)]
	plan := l.pn.plan
	l.pn.mu.Unlock()
	if peer == nil {
		return nil, errors.New("no such address")
	}
	a, b := net.Pipe()
	select {
	case peer.accept <- b:
	case <-peer.closed:
		return nil, errors.New("peer closed")
	}
	var f *connFault
	if plan != nil {
		f = plan()
	}
	if f == nil {
		return a, nil
	}
	return &faultConn{Conn: a, f: f}, nil
}

// connFault: close the connection after n bytes written / read, or deliver
// writes in small pieces.
type connFault struct {
	closeAfterWrite int // <=0: never
	closeAfterRead  int
	shortWrites     bool
}

type faultConn struct {
	net.Conn
	f       *connFault
	mu      sync.Mutex
	wr, rd  int
	tripped bool
}

func (c *faultConn) Write(p []byte) (int, error) {
	c.mu.Lock()
	f := c.f
	if f.closeAfterWrite > 0 && c.wr+len(p) > f.closeAfterWrite {
		n := f.closeAfterWrite - c.wr
		c.tripped = true
		c.mu.Unlock()
		if n > 0 {
			c.Conn.Write(p[:n])
		}
		c.Conn.Close()
		return n, errors.New("injected: connection reset while writing")
	}
	c.wr += len(p)
	c.mu.Unlock()
	if f.shortWrites && len(p) > 3 {
		k := len(p) / 3
		n1, err := c.Conn.Write(p[:k])
		if err != nil {
			return n1, err
		}
		n2, err := c.Conn.Write(p[k:])
		return n1 + n2, err
	}
	return c.Conn.Write(p)
}

func (c *faultConn) Read(p []byte) (int, error) {
	c.mu.Lock()
	f := c.f
	if f.closeAfterRead > 0 && c.rd >= f.closeAfterRead {
		c.tripped = true
		c.mu.Unlock()
		c.Conn.Close()
		return 0, errors.New("injected: connection reset while reading")
	}
	lim := len(p)
	if f.closeAfterRead > 0 && c.rd+lim > f.closeAfterRead {
		lim = f.closeAfterRead - c.rd
	}
	c.mu.Unlock()
	n, err := c.Conn.Read(p[:lim])
	c.mu.Lock()
	c.rd += n
	c.mu.Unlock()
	return n, err
}

// ---------- recording consumer ----------

type recorded struct {
	cmd  interface{}
	data []byte
}

type responder struct {
	mu     sync.Mutex
	got    map[string][]recorded       // tag -> what arrived (more than one = duplicate delivery)
	answer map[string]raft.RPCResponse // tag -> what the handler produced
	rng    *rand.Rand
	delay  time.Duration
	hold   time.Duration // every handler waits this long before it answers
}

func tagOf(cmd interface{}) string {
	if w, ok := cmd.(raft.WithRPCHeader); ok {
		return string(w.GetRPCHeader().ID)
	}
	return ""
}

func num(tag string) uint64 {
	var n uint64
	fmt.Sscanf(tag, "tag-%d", &n)
	return n
}

func (r *responder) handle(rpc raft.RPC) {
	tag := tagOf(rpc.Command)
	var data []byte
	if rpc.Reader != nil {
		data, _ = io.ReadAll(rpc.Reader)
	}
	n := num(tag)
	var resp interface{}
	hdr := raft.RPCHeader{ProtocolVersion: 3, ID: []byte("resp-" + tag), Addr: []byte("B")}
	switch rpc.Command.(type) {
	case *raft.AppendEntriesRequest:
		resp = &raft.AppendEntriesResponse{RPCHeader: hdr, Term: n, LastLog: n * 3, Success: n%2 == 0, NoRetryBackoff: n%3 == 0}
	case *raft.RequestVoteRequest:
		resp = &raft.RequestVoteResponse{RPCHeader: hdr, Term: n, Granted: n%2 == 1, Peers: []byte(tag)}
	case *raft.RequestPreVoteRequest:
		resp = &raft.RequestPreVoteResponse{RPCHeader: hdr, Term: n, Granted: n%2 == 1}
	case *raft.InstallSnapshotRequest:
		resp = &raft.InstallSnapshotResponse{RPCHeader: hdr, Term: n, Success: n%2 == 0}
	case *raft.TimeoutNowRequest:
		resp = &raft.TimeoutNowResponse{RPCHeader: hdr}
	}
	var err error
	if n%7 == 3 {
		err = fmt.Errorf("handler error for %s", tag)
	}
	r.mu.Lock()
	r.got[tag] = append(r.got[tag], recorded{cmd: rpc.Command, data: data})
	r.answer[tag] = raft.RPCResponse{Response: resp, Error: err}
	d := time.Duration(0)
	if r.delay > 0 {
		d = time.Duration(r.rng.Int63n(int64(r.delay)))
	}
	d += r.hold
	r.mu.Unlock()
	if d > 0 {
		time.Sleep(d)
	}
	rpc.Respond(resp, err)
}

// ---------- message generation ----------

type gen struct {
	rng *rand.Rand
	ctr *uint64
	mu  *sync.Mutex
}

func (g gen) tag() (string, uint64) {
	g.mu.Lock()
	*g.ctr++
	n := *g.ctr
	g.mu.Unlock()
	return fmt.Sprintf("tag-%d", n), n
}

func (g gen) bytes(max int) []byte {
	switch g.rng.Intn(6) {
	case 0:
		return nil
	case 1:
		return []byte{}
	}
	n := g.rng.Intn(max + 1)
	b := make([]byte, n)
	g.rng.Read(b)
	return b
}

func (g gen) header(tag string) raft.RPCHeader {
	h := raft.RPCHeader{ProtocolVersion: raft.ProtocolVersion(g.rng.Intn(4)), ID: []byte(tag)}
	if g.rng.Intn(3) > 0 {
		h.Addr = []byte("A")
	}
	return h
}

func (g gen) when() time.Time {
	switch g.rng.Intn(4) {
	case 0:
		return time.Time{}
	case 1:
		return time.Now() // with monotonic reading
	case 2:
		return time.Unix(g.rng.Int63n(2e9), g.rng.Int63n(1e9)).In(time.FixedZone("X", 3600*(g.rng.Intn(24)-12)))
	}
	return time.Unix(g.rng.Int63n(2e9), 0).UTC()
}

func (g gen) entries(big bool) []*raft.Log {
	if g.rng.Intn(8) == 0 {
		return nil
	}
	n := g.rng.Intn(9)
	if g.rng.Intn(10) == 0 {
		n = g.rng.Intn(65)
	}
	out := make([]*raft.Log, n)
	for i := range out {
		max := 64
		if big && g.rng.Intn(20) == 0 {
			max = 1 << 20
		}
		out[i] = &raft.Log{Index: g.rng.Uint64(), Term: g.rng.Uint64(), Type: raft.LogType(g.rng.Intn(6)), Data: g.bytes(max), Extensions: g.bytes(32), AppendedAt: g.when()}
	}
	return out
}

func (g gen) appendEntries(big bool) *raft.AppendEntriesRequest {
	tag, n := g.tag()
	return &raft.AppendEntriesRequest{RPCHeader: g.header(tag), Term: n, Leader: g.bytes(16), PrevLogEntry: g.rng.Uint64(), PrevLogTerm: g.rng.Uint64(), Entries: g.entries(big), LeaderCommitIndex: g.rng.Uint64() | 1}
}

// ---------- comparison ----------

func eqBytes(a, b []byte) bool { return bytes.Equal(a, b) } // nil == empty

func eqLog(a, b *raft.Log) string {
	if a.Index != b.Index || a.Term != b.Term || a.Type != b.Type {
		return fmt.Sprintf("index/term/type (%d,%d,%d) vs (%d,%d,%d)", a.Index, a.Term, a.Type, b.Index, b.Term, b.Type)
	}
	if !eqBytes(a.Data, b.Data) {
		return fmt.Sprintf("data differs (len %d vs %d)", len(a.Data), len(b.Data))
	}
	if !eqBytes(a.Extensions, b.Extensions) {
		return "extensions differ"
	}
	if !a.AppendedAt.Equal(b.AppendedAt) {
		return fmt.Sprintf("AppendedAt %v vs %v", a.AppendedAt, b.AppendedAt)
	}
	return ""
}

func eqHeader(a, b raft.RPCHeader) string {
	if a.ProtocolVersion != b.ProtocolVersion || !eqBytes(a.ID, b.ID) || !eqBytes(a.Addr, b.Addr) {
		return fmt.Sprintf("header %v vs %v", a, b)
	}
	return ""
}

// eqCmd compares a sent request with the one the handler received.
func eqCmd(sent, got interface{}) string {
	if reflect.TypeOf(sent) != reflect.TypeOf(got) {
		return fmt.Sprintf("type %T vs %T", sent, got)
	}
	switch a := sent.(type) {
	case *raft.AppendEntriesRequest:
		b := got.(*raft.AppendEntriesRequest)
		if d := eqHeader(a.RPCHeader, b.RPCHeader); d != "" {
			return d
		}
		if a.Term != b.Term || a.PrevLogEntry != b.PrevLogEntry || a.PrevLogTerm != b.PrevLogTerm || a.LeaderCommitIndex != b.LeaderCommitIndex || !eqBytes(a.Leader, b.Leader) {
			return "scalar field differs"
		}
		if len(a.Entries) != len(b.Entries) {
			return fmt.Sprintf("%d entries vs %d", len(a.Entries), len(b.Entries))
		}
		for i := range a.Entries {
			if d := eqLog(a.Entries[i], b.Entries[i]); d != "" {
				return fmt.Sprintf("entry %d: %s", i, d)
			}
		}
	case *raft.RequestVoteRequest:
		b := got.(*raft.RequestVoteRequest)
		if d := eqHeader(a.RPCHeader, b.RPCHeader); d != "" {
			return d
		}
		if a.Term != b.Term || a.LastLogIndex != b.LastLogIndex || a.LastLogTerm != b.LastLogTerm || a.LeadershipTransfer != b.LeadershipTransfer || !eqBytes(a.Candidate, b.Candidate) {
			return "field differs"
		}
	case *raft.RequestPreVoteRequest:
		b := got.(*raft.RequestPreVoteRequest)
		if d := eqHeader(a.RPCHeader, b.RPCHeader); d != "" {
			return d
		}
		if a.Term != b.Term || a.LastLogIndex != b.LastLogIndex || a.LastLogTerm != b.LastLogTerm {
			return "field differs"
		}
	case *raft.InstallSnapshotRequest:
		b := got.(*raft.InstallSnapshotRequest)
		if d := eqHeader(a.RPCHeader, b.RPCHeader); d != "" {
			return d
		}
		if a.SnapshotVersion != b.SnapshotVersion || a.Term != b.Term || a.LastLogIndex != b.LastLogIndex || a.LastLogTerm != b.LastLogTerm || a.ConfigurationIndex != b.ConfigurationIndex || a.Size != b.Size ||
			!eqBytes(a.Leader, b.Leader) || !eqBytes(a.Peers, b.Peers) || !eqBytes(a.Configuration, b.Configuration) {
			return "field differs"
		}
	case *raft.TimeoutNowRequest:
		b := got.(*raft.TimeoutNowRequest)
		return eqHeader(a.RPCHeader, b.RPCHeader)
	}
	return ""
}

// eqResp compares what the caller got with what the handler produced.
func eqResp(got interface{}, gotErr error, want raft.RPCResponse) string {
	if (gotErr != nil) != (want.Error != nil) {
		return fmt.Sprintf("error %v vs handler error %v", gotErr, want.Error)
	}
	if gotErr != nil && gotErr.Error() != want.Error.Error() {
		return fmt.Sprintf("error %q vs handler error %q", gotErr, want.Error)
	}
	switch a := got.(type) {
	case *raft.AppendEntriesResponse:
		b := want.Response.(*raft.AppendEntriesResponse)
		if d := eqHeader(a.RPCHeader, b.RPCHeader); d != "" {
			return d
		}
		if a.Term != b.Term || a.LastLog != b.LastLog || a.Success != b.Success || a.NoRetryBackoff != b.NoRetryBackoff {
			return fmt.Sprintf("response %+v vs %+v", *a, *b)
		}
	case *raft.RequestVoteResponse:
		b := want.Response.(*raft.RequestVoteResponse)
		if a.Term != b.Term || a.Granted != b.Granted || !eqBytes(a.Peers, b.Peers) || eqHeader(a.RPCHeader, b.RPCHeader) != "" {
			return fmt.Sprintf("response %+v vs %+v", *a, *b)
		}
	case *raft.RequestPreVoteResponse:
		b := want.Response.(*raft.RequestPreVoteResponse)
		if a.Term != b.Term || a.Granted != b.Granted || eqHeader(a.RPCHeader, b.RPCHeader) != "" {
			return fmt.Sprintf("response %+v vs %+v", *a, *b)
		}
	case *raft.InstallSnapshotResponse:
		b := want.Response.(*raft.InstallSnapshotResponse)
		if a.Term != b.Term || a.Success != b.Success || eqHeader(a.RPCHeader, b.RPCHeader) != "" {
			return fmt.Sprintf("response %+v vs %+v", *a, *b)
		}
	case *raft.TimeoutNowResponse:
		b := want.Response.(*raft.TimeoutNowResponse)
		return eqHeader(a.RPCHeader, b.RPCHeader)
	}
	return ""
}

// ---------- harness ----------

type pair struct {
	a, b  *raft.NetworkTransport
	addrB raft.ServerAddress
	resp  *responder
	stop  chan struct{}
	wg    sync.WaitGroup
	pn    *pipeNet
}

func quietLogger() hclog.Logger {
	return hclog.New(&hclog.LoggerOptions{Output: io.Discard, Level: hclog.Off})
}

// pairTimeout is the I/O timeout of the transports newPair creates. The fidelity rounds use a
// long one so that a loaded machine cannot produce timeouts; the idle-pipeline rounds a short one.
var pairTimeout = 60 * time.Second

func newPair(t *testing.T, tcp bool, maxPool, inflight int, newTime bool, seed int64, fastPath bool, delay time.Duration) *pair {
	p := &pair{stop: make(chan struct{})}
	p.resp = &responder{got: map[string][]recorded{}, answer: map[string]raft.RPCResponse{}, rng: rand.New(rand.NewSource(seed)), delay: delay}
	mk := func(name string) *raft.NetworkTransport {
		cfg := &raft.NetworkTransportConfig{Logger: quietLogger(), MaxPool: maxPool, MaxRPCsInFlight: inflight, Timeout: pairTimeout, MsgpackUseNewTimeFormat: newTime}
		if tcp {
			tr, err := raft.NewTCPTransportWithConfig("127.0.0.1:0", nil, cfg)
			if err != nil {
				t.Fatal(err)
			}
			return tr
		}
		cfg.Stream = p.pn.layer(name)
		return raft.NewNetworkTransportWithConfig(cfg)
	}
	if !tcp {
		p.pn = &pipeNet{lists: map[string]*pipeLayer{}}
	}
	p.a, p.b = mk("A"), mk("B")
	p.addrB = p.b.LocalAddr()
	if fastPath {
		p.b.SetHeartbeatHandler(p.resp.handle)
	}
	p.wg.Add(1)
	go func() {
		defer p.wg.Done()
		for {
			select {
			case rpc := <-p.b.Consumer():
				p.wg.Add(1)
				go func() { defer p.wg.Done(); p.resp.handle(rpc) }()
			case <-p.stop:
				return
			}
		}
	}()
	return p
}

func (p *pair) close() {
	p.a.Close()
	p.b.Close()
	close(p.stop)
	p.wg.Wait()
}

// send issues one generated RPC of the given kind and checks request and
// response fidelity. faulty: connection faults are armed, errors are allowed.
func (p *pair) send(col *table.Collector, g gen, kind int, big, faulty bool) {
	var sent interface{}
	var got interface{}
	var err error
	var body []byte
	switch kind {
	case 0:
		req := g.appendEntries(big)
		if g.rng.Intn(10) == 0 { // heartbeat-shaped
			req.PrevLogEntry, req.PrevLogTerm, req.Entries, req.LeaderCommitIndex = 0, 0, nil, 0
			if len(req.Leader) == 0 && len(req.Addr) == 0 {
				req.Leader = []byte("A")
			}
		}
		var resp raft.AppendEntriesResponse
		err = p.a.AppendEntries("B", p.addrB, req, &resp)
		sent, got = req, &resp
	case 1:
		tag, n := g.tag()
		req := &raft.RequestVoteRequest{RPCHeader: g.header(tag), Term: n, Candidate: g.bytes(16), LastLogIndex: g.rng.Uint64(), LastLogTerm: g.rng.Uint64(), LeadershipTransfer: g.rng.Intn(2) == 0}
		var resp raft.RequestVoteResponse
		err = p.a.RequestVote("B", p.addrB, req, &resp)
		sent, got = req, &resp
	case 2:
		tag, n := g.tag()
		req := &raft.RequestPreVoteRequest{RPCHeader: g.header(tag), Term: n, LastLogIndex: g.rng.Uint64(), LastLogTerm: g.rng.Uint64()}
		var resp raft.RequestPreVoteResponse
		err = p.a.RequestPreVote("B", p.addrB, req, &resp)
		sent, got = req, &resp
	case 3:
		tag, n := g.tag()
		sizes := []int{0, 1, 4096, 256*1024 - 1, 256 * 1024, 256*1024 + 1}
		if big {
			sizes = append(sizes, 3<<20)
		}
		body = make([]byte, sizes[g.rng.Intn(len(sizes))])
		g.rng.Read(body)
		req := &raft.InstallSnapshotRequest{RPCHeader: g.header(tag), SnapshotVersion: raft.SnapshotVersion(g.rng.Intn(2)), Term: n, Leader: g.bytes(16), LastLogIndex: g.rng.Uint64(), LastLogTerm: g.rng.Uint64(),
			Peers: g.bytes(32), Configuration: g.bytes(64), ConfigurationIndex: g.rng.Uint64(), Size: int64(len(body))}
		var resp raft.InstallSnapshotResponse
		err = p.a.InstallSnapshot("B", p.addrB, req, &resp, bytes.NewReader(body))
		sent, got = req, &resp
	case 4:
		tag, _ := g.tag()
		req := &raft.TimeoutNowRequest{RPCHeader: g.header(tag)}
		var resp raft.TimeoutNowResponse
		err = p.a.TimeoutNow("B", p.addrB, req, &resp)
		sent, got = req, &resp
	}
	tag := tagOf(sent)
	kindName := []string{"AppendEntries", "RequestVote", "RequestPreVote", "InstallSnapshot", "TimeoutNow"}[kind]
	p.resp.mu.Lock()
	recs := append([]recorded(nil), p.resp.got[tag]...)
	ans, answered := p.resp.answer[tag]
	p.resp.mu.Unlock()
	col.Cov("rpc:"+kindName, 1)
	// (1) what arrived equals what was sent
	for _, rec := range recs {
		if d := eqCmd(sent, rec.cmd); d != "" {
			col.Violate("request-altered", "%s %s: the handler received a different request: %s", kindName, tag, d)
		}
		if kind == 3 && !bytes.Equal(rec.data, body) {
			if faulty && err != nil && bytes.HasPrefix(body, rec.data) {
				// the connection was cut while the body was streaming: the handler saw a
				// prefix (it can tell from Size) and the caller got an error
				col.Cov("snapshot-body-cut-by-fault", 1)
				continue
			}
			col.Violate("snapshot-body-altered", "%s %s: handler read %d bytes, %d were sent (equal prefix: %v)", kindName, tag, len(rec.data), len(body), bytes.HasPrefix(body, rec.data))
		}
	}
	if len(recs) > 1 {
		col.Violate("request-delivered-twice", "%s %s reached the handler %d times", kindName, tag, len(recs))
	}
	wantErr := answered && ans.Error != nil
	if err != nil && !(wantErr && err.Error() == ans.Error.Error()) {
		// a transport-level failure
		if !faulty && strings.Contains(err.Error(), "timeout") {
			// a wall-clock deadline of the transport fired on a loaded machine: no verdict
			col.Cov("inconclusive-transport-timeout", 1)
		} else if !faulty {
			col.Violate("unexpected-transport-error", "%s %s failed without any injected fault: %v", kindName, tag, err)
		} else {
			col.Cov("failed-under-fault", 1)
		}
		return
	}
	if !answered {
		col.Violate("response-without-request", "%s %s returned (err=%v) but the handler never saw the request", kindName, tag, err)
		return
	}
	// (2)/(4) the response belongs to this request and equals what the handler produced
	if d := eqResp(got, err, ans); d != "" {
		col.Violate("response-altered-or-mispaired", "%s %s: caller got something else than its handler produced: %s", kindName, tag, d)
	}
	col.Distinct(tag)
}

func TestC16(t *testing.T) {
	col := table.NewCollector("C16")
	defer col.Write()
	shard, shards := table.Shard()
	thorough := table.Thorough()
	total := 2000
	if thorough {
		total = 100000
	}
	per := total / shards
	var ctr uint64 = uint64(shard) * 10_000_000
	var cmu sync.Mutex
	seed := table.Seed()*977 + int64(shard)
	rng := rand.New(rand.NewSource(seed))
	done := 0
	round := 0
	for done < per {
		round++
		tcp := round%2 == 0
		maxPool := []int{0, 1, 3}[rng.Intn(3)]
		inflight := []int{1, 2, 3, 10, 130}[rng.Intn(5)]
		p := newPair(t, tcp, maxPool, inflight, rng.Intn(2) == 0, seed+int64(round), rng.Intn(2) == 0, time.Duration(rng.Intn(3))*time.Millisecond)
		// ---- plain calls from concurrent senders ----
		senders := 1 + rng.Intn(8)
		n := 20 + rng.Intn(60)
		var wg sync.WaitGroup
		var cm sync.Mutex
		for s := 0; s < senders; s++ {
			wg.Add(1)
			g := gen{rng: rand.New(rand.NewSource(seed + int64(round*100+s))), ctr: &ctr, mu: &cmu}
			go func() {
				defer wg.Done()
				for i := 0; i < n/senders+1; i++ {
					lc := table.NewCollector("C16")
					p.send(lc, g, g.rng.Intn(5), thorough && i%10 == 0, false)
					cm.Lock()
					col.Merge(lc)
					cm.Unlock()
				}
			}()
		}
		wg.Wait()
		done += n
		// ---- pipeline ----
		if inflight >= 2 {
			pipelineRound(col, p, gen{rng: rand.New(rand.NewSource(seed + int64(round*100+50))), ctr: &ctr, mu: &cmu}, 10+rng.Intn(60))
			done += 30
		}
		// ---- a pipeline that sits idle before it is used (short I/O timeout) ----
		if inflight >= 2 && round%3 == 1 {
			idlePipelineRound(t, col, tcp, inflight, seed+int64(round), gen{rng: rand.New(rand.NewSource(seed + int64(round*100+60))), ctr: &ctr, mu: &cmu})
		}
		// ---- InstallSnapshot on a connection that has been used before, and one that is never answered ----
		if round%3 == 2 {
			idleInstallRound(t, col, tcp, seed+int64(round), gen{rng: rand.New(rand.NewSource(seed + int64(round*100+65))), ctr: &ctr, mu: &cmu})
		}
		// ---- connection faults (pipe transport only) ----
		if !tcp {
			g := gen{rng: rand.New(rand.NewSource(seed + int64(round*100+70))), ctr: &ctr, mu: &cmu}
			for k := 0; k < 12; k++ {
				f := &connFault{shortWrites: rng.Intn(2) == 0}
				if rng.Intn(2) == 0 {
					f.closeAfterWrite = 1 + rng.Intn(400)
				} else {
					f.closeAfterRead = 1 + rng.Intn(60)
				}
				used := false
				p.pn.mu.Lock()
				p.pn.plan = func() *connFault {
					if used {
						return nil
					}
					used = true
					return f
				}
				p.pn.mu.Unlock()
				p.a.CloseStreams() // force new connections so the fault plan applies
				for j := 0; j < 3; j++ {
					p.send(col, g, g.rng.Intn(5), false, true)
				}
				col.Cov("fault-placements", 1)
				p.pn.mu.Lock()
				p.pn.plan = nil
				p.pn.mu.Unlock()
				// the pool must still pair correctly afterwards
				for j := 0; j < 3; j++ {
					p.send(col, g, g.rng.Intn(3), false, true)
				}
			}
			done += 40
		}
		p.close()
	}
	col.Cov("messages", done)
	col.Eval(done)
	col.Sample(map[string]interface{}{"rounds": round, "note": "each round: fresh transport pair (TCP loopback or fault-injecting pipes), random MaxPool/MaxRPCsInFlight/time format, 1-8 concurrent senders of all five RPC kinds, one pipeline burst, 12 fault placements on the pipe transport"})
}

func pipelineRound(col *table.Collector, p *pair, g gen, n int) {
	pl, err := p.a.AppendEntriesPipeline("B", p.addrB)
	if err != nil {
		col.Violate("pipeline-open-failed", "%v", err)
		return
	}
	defer pl.Close()
	var sentTags []string
	sentReq := map[string]*raft.AppendEntriesRequest{}
	doneCh := make(chan struct{})
	var order []string
	var mismatched []string
	timedOut := false
	go func() {
		defer close(doneCh)
		for i := 0; i < n; i++ {
			select {
			case f := <-pl.Consumer():
				tag := tagOf(f.Request())
				order = append(order, tag)
				ferr := f.Error()
				p.resp.mu.Lock()
				ans, ok := p.resp.answer[tag]
				p.resp.mu.Unlock()
				if !ok {
					mismatched = append(mismatched, tag+": completed but the handler never saw it")
					continue
				}
				if d := eqResp(f.Response(), ferr, ans); d != "" {
					mismatched = append(mismatched, tag+": "+d)
				}
			case <-time.After(120 * time.Second):
				timedOut = true
				return
			}
		}
	}()
	for i := 0; i < n; i++ {
		req := g.appendEntries(false)
		tag := tagOf(req)
		sentTags = append(sentTags, tag)
		sentReq[tag] = req
		if _, err := pl.AppendEntries(req, new(raft.AppendEntriesResponse)); err != nil {
			col.Violate("pipeline-send-failed", "%v", err)
			return
		}
	}
	<-doneCh
	if timedOut {
		col.Cov("inconclusive-pipeline-timeout", 1)
		return
	}
	col.Cov("pipelined", n)
	for _, m := range mismatched {
		col.Violate("pipeline-response-mispaired", "%s", m)
	}
	if len(order) == len(sentTags) {
		for i := range order {
			if order[i] != sentTags[i] {
				col.Violate("pipeline-out-of-order", "position %d: response for %s, request sent there was %s", i, order[i], sentTags[i])
				break
			}
		}
	}
	for tag, req := range sentReq {
		p.resp.mu.Lock()
		recs := p.resp.got[tag]
		p.resp.mu.Unlock()
		for _, rec := range recs {
			if d := eqCmd(req, rec.cmd); d != "" {
				col.Violate("request-altered", "pipelined AppendEntries %s: %s", tag, d)
			}
		}
		col.Distinct(tag)
	}
}

// idlePipelineRound: the I/O timeout of an exchange runs from the moment the exchange starts. A
// pipeline is opened and left idle for longer than the timeout before its first request; after
// that exchange it idles for 0.7 timeouts and sends a request whose handler takes 0.6 timeouts.
// Both are healthy exchanges. The verdict does not depend on the machine's speed: an error that
// comes back *sooner* than the timeout after the request was sent cannot be a legitimate timeout
// (violation); one that comes later is a slow machine (inconclusive counter).
func idlePipelineRound(t *testing.T, col *table.Collector, tcp bool, inflight int, seed int64, g gen) {
	const T = 400 * time.Millisecond
	old := pairTimeout
	pairTimeout = T
	p := newPair(t, tcp, 3, inflight, true, seed, false, 0)
	pairTimeout = old
	defer p.close()
	pl, err := p.a.AppendEntriesPipeline("B", p.addrB)
	if err != nil {
		col.Cov("inconclusive-idle-pipeline-open", 1)
		return
	}
	defer pl.Close()
	exchange := func(what string) bool {
		req := g.appendEntries(false)
		tag := tagOf(req)
		start := time.Now()
		if _, err := pl.AppendEntries(req, new(raft.AppendEntriesResponse)); err != nil {
			if el := time.Since(start); el < T*8/10 {
				col.Violate("error-before-timeout", "%s: pipelined AppendEntries %s could not be sent after %v (I/O timeout %v): %v", what, tag, el, T, err)
			} else {
				col.Cov("inconclusive-idle-pipeline-slow", 1)
			}
			return false
		}
		select {
		case f := <-pl.Consumer():
			el := time.Since(start)
			if ferr := f.Error(); ferr != nil {
				p.resp.mu.Lock()
				ans, seen := p.resp.answer[tag]
				p.resp.mu.Unlock()
				if seen && ans.Error != nil {
					return true // the handler's own error, faithfully reported
				}
				if el < T*8/10 {
					col.Violate("error-before-timeout", "%s: healthy pipelined AppendEntries %s failed %v after it was sent, I/O timeout %v: %v", what, tag, el, T, ferr)
				} else {
					col.Cov("inconclusive-idle-pipeline-slow", 1)
				}
				return false
			}
			p.resp.mu.Lock()
			ans := p.resp.answer[tag]
			p.resp.mu.Unlock()
			if d := eqResp(f.Response(), nil, ans); d != "" {
				col.Violate("pipeline-response-mispaired", "%s: %s: %s", what, tag, d)
			}
			col.Cov("idle-pipeline-exchanges", 1)
			return true
		case <-time.After(30 * time.Second):
			col.Cov("inconclusive-pipeline-timeout", 1)
			return false
		}
	}
	time.Sleep(T + T/2)
	if !exchange("first request on a pipeline that was idle for 1.5 timeouts") {
		return
	}
	time.Sleep(T * 7 / 10)
	p.resp.mu.Lock()
	p.resp.hold = T * 6 / 10
	p.resp.mu.Unlock()
	exchange("request answered after 0.6 timeouts, sent 0.7 timeouts after the previous exchange")
}

// idleInstallRound: the I/O timeout of an InstallSnapshot covers the whole exchange, both directions, from
// the moment it starts - whatever the connection was used for before. (1) A plain RPC leaves a pooled
// connection behind; 0.7 timeouts later an InstallSnapshot goes out on it whose handler answers after
// 0.6 timeouts: a healthy exchange. An error that comes back sooner than 0.8 timeouts after the
// InstallSnapshot started cannot be its own timeout. (2) On a fresh transport pair an InstallSnapshot whose
// handler answers only after 6 timeouts has failed long before: getting the handler's late answer as a
// success means no deadline was in force on the read side. Neither verdict depends on the machine's speed.
func idleInstallRound(t *testing.T, col *table.Collector, tcp bool, seed int64, g gen) {
	const T = 400 * time.Millisecond
	mkReq := func() (*raft.InstallSnapshotRequest, []byte, string) {
		tag, n := g.tag()
		body := make([]byte, 1+g.rng.Intn(2048))
		g.rng.Read(body)
		return &raft.InstallSnapshotRequest{RPCHeader: g.header(tag), SnapshotVersion: 1, Term: n, LastLogIndex: n, LastLogTerm: n, Configuration: g.bytes(16), Size: int64(len(body))}, body, tag
	}
	old := pairTimeout
	pairTimeout = T
	p := newPair(t, tcp, 3, 2, true, seed, false, 0)
	q := newPair(t, tcp, 3, 2, true, seed+1, false, 0)
	pairTimeout = old
	defer p.close()
	defer q.close()
	// (1)
	warm := g.appendEntries(false)
	if err := p.a.AppendEntries("B", p.addrB, warm, new(raft.AppendEntriesResponse)); err != nil {
		p.resp.mu.Lock()
		ans, seen := p.resp.answer[tagOf(warm)]
		p.resp.mu.Unlock()
		if !seen || ans.Error == nil {
			col.Cov("inconclusive-idle-install-warmup", 1)
			return
		}
	}
	time.Sleep(T * 7 / 10)
	p.resp.mu.Lock()
	p.resp.hold = T * 6 / 10
	p.resp.mu.Unlock()
	req, body, tag := mkReq()
	var resp raft.InstallSnapshotResponse
	start := time.Now()
	err := p.a.InstallSnapshot("B", p.addrB, req, &resp, bytes.NewReader(body))
	el := time.Since(start)
	p.resp.mu.Lock()
	ans, seen := p.resp.answer[tag]
	p.resp.mu.Unlock()
	switch {
	case err != nil && seen && ans.Error != nil:
		col.Cov("idle-install-exchanges", 1) // the handler's own error
	case err != nil && el < T*8/10:
		col.Violate("error-before-timeout", "InstallSnapshot %s on a connection used 0.7 timeouts earlier, answered after 0.6 timeouts, failed %v after it started (I/O timeout %v): %v", tag, el, T, err)
	case err != nil:
		col.Cov("inconclusive-idle-install-slow", 1)
	default:
		if d := eqResp(&resp, nil, ans); d != "" {
			col.Violate("response-altered-or-mispaired", "idle InstallSnapshot %s: %s", tag, d)
		}
		col.Cov("idle-install-exchanges", 1)
	}
	// (3) an exchange that timed out leaves a connection with an answer still to come: the next call must
	// not be handed that answer (the connection is not to be pooled again)
	{
		pairTimeout = T
		r3 := newPair(t, tcp, 3, 2, true, seed+2, false, 0)
		pairTimeout = old
		r3.resp.mu.Lock()
		r3.resp.hold = T * 3 / 2
		r3.resp.mu.Unlock()
		slow := g.appendEntries(false)
		err1 := r3.a.AppendEntries("B", r3.addrB, slow, new(raft.AppendEntriesResponse))
		r3.resp.mu.Lock()
		r3.resp.hold = 0
		ans1, seen1 := r3.resp.answer[tagOf(slow)]
		r3.resp.mu.Unlock()
		if err1 == nil || (seen1 && ans1.Error != nil) {
			col.Cov("inconclusive-timeout-then-reuse", 1) // a loaded machine, or the handler's own error
		} else {
			next := g.appendEntries(false)
			var resp3 raft.AppendEntriesResponse
			err2 := r3.a.AppendEntries("B", r3.addrB, next, &resp3)
			time.Sleep(T) // the late answer of the first exchange is out by now
			r3.resp.mu.Lock()
			ans2, seen2 := r3.resp.answer[tagOf(next)]
			r3.resp.mu.Unlock()
			if err2 == nil && seen2 && ans2.Error == nil {
				if d := eqResp(&resp3, nil, ans2); d != "" {
					col.Violate("response-altered-or-mispaired", "call %s right after a call that timed out on the same transport: %s", tagOf(next), d)
				}
			} else if err2 == nil && !seen2 {
				col.Violate("response-altered-or-mispaired", "call %s right after a call that timed out returned a response although the handler never saw the request", tagOf(next))
			}
			col.Cov("timeout-then-reuse", 1)
		}
		r3.close()
	}
	// (2)
	q.resp.mu.Lock()
	q.resp.hold = 6 * T
	q.resp.mu.Unlock()
	req2, body2, tag2 := mkReq()
	var resp2 raft.InstallSnapshotResponse
	done := make(chan error, 1)
	go func() { done <- q.a.InstallSnapshot("B", q.addrB, req2, &resp2, bytes.NewReader(body2)) }()
	select {
	case err := <-done:
		q.resp.mu.Lock()
		ans2 := q.resp.answer[tag2]
		q.resp.mu.Unlock()
		if err == nil && ans2.Error == nil {
			col.Violate("late-response-accepted-after-timeout", "InstallSnapshot %s was answered by its handler 6 I/O timeouts (%v each) after it was sent and still returned that answer as a success: no deadline covered the wait for the response", tag2, T)
		} else {
			col.Cov("unanswered-install-timed-out", 1)
		}
	case <-time.After(60 * time.Second):
		col.Cov("inconclusive-unanswered-install", 1)
	}
}
