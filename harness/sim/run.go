package sim

import (
	"fmt"
	"math/rand"
	"sync"
	"time"

	"github.com/hashicorp/raft"
)

// Runner executes one scenario.
type Runner struct {
	C   *Cluster
	Sc  Scenario
	rng *rand.Rand
	t0  time.Time

	stopClients chan struct{}
	cwg         sync.WaitGroup
	bgCalls     sync.WaitGroup
	ctr         [16]uint64
	restoreTag  uint64
	lastCut     *Node
	isoSet      map[*Node]bool
	tailDown    map[*Node]bool // servers (a minority of the voters) that stay down through the quiet tail
}

func (rn *Runner) sleepUntil(ms int) {
	d := time.Duration(ms)*time.Millisecond - time.Since(rn.t0)
	if d > 0 {
		time.Sleep(d)
	}
}

func (rn *Runner) node(i int) *Node {
	if i < 0 || i >= len(rn.C.Nodes) {
		return nil
	}
	return rn.C.Nodes[i]
}

// ConvergenceBudget is the C12 bound B in virtual time for these parameters.
func ConvergenceBudget(p Params) time.Duration {
	el := time.Duration(p.ElectionMs) * time.Millisecond
	return 20*el + 10*time.Second
}

func (rn *Runner) client(cl int) {
	defer rn.cwg.Done()
	c, sc := rn.C, rn.Sc
	rng := rand.New(rand.NewSource(sc.Seed*31 + int64(cl)*104729 + int64(sc.Idx)))
	for {
		select {
		case <-rn.stopClients:
			return
		default:
		}
		var nd *Node
		if rng.Intn(100) < sc.WAnyNode {
			nd = c.Nodes[rng.Intn(len(c.Nodes))]
		} else if nd = c.Leader(); nd == nil {
			nd = c.Nodes[rng.Intn(len(c.Nodes))]
		}
		x := rng.Intn(100)
		switch {
		case x < sc.WBarrier:
			c.Barrier(cl, nd, 50*time.Millisecond)
		case x < sc.WBarrier+sc.WVerify:
			c.Verify(cl, nd)
		case x < sc.WBarrier+sc.WVerify+sc.WGetConfig:
			c.GetConfig(cl, nd)
		default:
			rn.ctr[cl]++
			key := fmt.Sprintf("k%d", rng.Intn(max(sc.Keys, 1)))
			payload := fmt.Sprintf("c%d.%d %s", cl, rn.ctr[cl], key)
			to := time.Duration(sc.ApplyTimeoutMs[rng.Intn(len(sc.ApplyTimeoutMs))]) * time.Millisecond
			c.Apply(cl, nd, payload, to)
		}
		if sc.ThinkMs > 0 {
			time.Sleep(time.Duration(rng.Intn(sc.ThinkMs)+1) * time.Millisecond)
		} else {
			time.Sleep(time.Millisecond)
		}
	}
}

func (rn *Runner) bg(f func()) {
	rn.bgCalls.Add(1)
	go func() { defer rn.bgCalls.Done(); f() }()
}

func (rn *Runner) doStep(st Step) {
	c := rn.C
	names := ""
	for _, i := range st.N {
		names += fmt.Sprintf("s%d ", i)
	}
	ev := Ev{K: "m." + st.Act, X: names, Y: st.S}
	if st.F != nil {
		ev.Z = fmt.Sprintf("%s/%d/%s", st.F.Kind, st.F.Nth, st.F.When)
	}
	c.W.Log(ev)
	switch st.Act {
	case "isolate":
		v := rn.node(st.N[0])
		for _, o := range c.Nodes {
			if o != v {
				c.Net.SetCut(v.name, o.name, true)
				c.Net.SetCut(o.name, v.name, true)
			}
		}
	case "partition":
		in := map[int]bool{}
		for _, i := range st.N {
			in[i] = true
		}
		for i, a := range c.Nodes {
			for j, b := range c.Nodes {
				if i != j {
					c.Net.SetCut(a.name, b.name, in[i] != in[j])
				}
			}
		}
	case "oneway":
		if st.N[0] != st.N[1] {
			c.Net.SetCut(rn.node(st.N[0]).name, rn.node(st.N[1]).name, true)
		}
	case "isolate-follower":
		// cut one voting follower off from everybody (the leader keeps its majority)
		if l := c.Leader(); l != nil {
			if in := l.Cur(); in != nil {
				voters, _ := currentVoters(in)
				var fs []*Node
				for _, nd := range c.Nodes {
					for _, v := range voters {
						if v == nd.name && nd != l {
							fs = append(fs, nd)
						}
					}
				}
				// the largest minority of voters that leaves the leader its majority
				k := (len(voters) - 1) / 2
				rn.rng.Shuffle(len(fs), func(i, j int) { fs[i], fs[j] = fs[j], fs[i] })
				if k > len(fs) {
					k = len(fs)
				}
				rn.isoSet = map[*Node]bool{}
				var pairs [][2]string
				for _, v := range fs[:k] {
					rn.isoSet[v] = true
					for _, o := range c.Nodes {
						if o != v {
							pairs = append(pairs, [2]string{v.name, o.name}, [2]string{o.name, v.name})
						}
					}
				}
				if len(pairs) > 0 {
					c.Net.CutMany(pairs)
				}
			}
		}
	case "demote-other":
		// take the vote away from a follower that is still reachable
		if l := c.Leader(); l != nil {
			if in := l.Cur(); in != nil {
				voters, _ := currentVoters(in)
				for _, nd := range c.Nodes {
					for _, v := range voters {
						if v == nd.name && nd != l && !rn.isoSet[nd] {
							tgt := nd
							op := st.S
							rn.bg(func() { c.Membership(91, l, op, tgt, 0, 50*time.Millisecond) })
							return
						}
					}
				}
			}
		}
	case "isolate-leader":
		if l := c.Leader(); l != nil {
			for _, o := range c.Nodes {
				if o != l {
					c.Net.SetCut(l.name, o.name, true)
					c.Net.SetCut(o.name, l.name, true)
				}
			}
		}
	case "lease-cut":
		rn.leaseCut(int(st.V[0]))
	case "pv-isolate":
		rn.pvIsolate(st.N)
	case "pv-asym":
		// the isolated servers' links come back in one direction only: their requests (pre-votes)
		// reach everybody and are answered, nothing the others send (heartbeats) reaches them yet
		c.Net.Heal()
		for _, i := range st.N {
			iso := rn.node(i)
			if iso == nil {
				continue
			}
			for _, o := range c.Nodes {
				if o != iso {
					c.Net.SetReqCut(o.name, iso.name, true)
				}
			}
		}
		c.W.Log(Ev{K: "m.pv.asym"})
	case "pv-check":
		for _, nd := range c.Nodes {
			c.Reading(nd, "pv-after")
		}
	case "quiet-read":
		for _, nd := range c.Nodes {
			c.Reading(nd, "quiet")
		}
	case "apply-on":
		nd := rn.node(st.N[0])
		if nd != nil {
			rn.ctr[13]++
			payload := fmt.Sprintf("x.%d k0", rn.ctr[13])
			rn.bg(func() { c.Apply(13, nd, payload, 50*time.Millisecond) })
		}
	case "apply-cut-leader":
		if rn.lastCut != nil {
			nd := rn.lastCut
			rn.ctr[13]++
			payload := fmt.Sprintf("x.%d k0", rn.ctr[13])
			rn.bg(func() { c.Apply(13, nd, payload, 50*time.Millisecond) })
		}
	case "verify-cut-leader":
		if rn.lastCut != nil {
			nd := rn.lastCut
			rn.bg(func() { c.Verify(94, nd) })
		}
	case "heal":
		c.Net.Heal()
	case "crash":
		rn.crashLimited(rn.node(st.N[0]))
	case "crash-leader":
		if l := c.Leader(); l != nil {
			rn.crashLimited(l)
		}
	case "arm":
		rn.node(st.N[0]).disk.Arm(*st.F)
	case "arm-sticky":
		rn.node(st.N[0]).disk.FailAfter(st.S, int(st.V[0]))
	case "disarm":
		rn.node(st.N[0]).disk.Disarm()
	case "arm-leader":
		if l := c.Leader(); l != nil {
			l.disk.Arm(*st.F)
		}
	case "restart":
		rn.restart(rn.node(st.N[0]))
	case "restartall":
		for _, nd := range c.Nodes {
			rn.restart(nd)
		}
	case "shutdown":
		nd := rn.node(st.N[0])
		rn.bg(func() { c.ShutdownNode(nd) })
	case "shutdown-leader":
		if l := c.Leader(); l != nil {
			rn.bg(func() {
				c.ShutdownNode(l)
				time.Sleep(time.Duration(2*rn.Sc.P.HeartbeatMs) * time.Millisecond)
				rn.restart(l)
			})
		}
	case "netfaults":
		c.Net.SetFaults(st.V[0], st.V[1], st.V[2], st.V[3], time.Duration(st.V[4])*time.Millisecond)
	case "snapshot":
		nd := rn.node(st.N[0])
		if st.N[0] < 0 {
			nd = c.Leader()
		}
		if nd != nil {
			rn.bg(func() { c.Snapshot(90, nd) })
		}
	case "member":
		l := c.Leader()
		tgt := rn.node(st.N[0])
		if l != nil && tgt != nil {
			var prev uint64
			if len(st.V) > 0 {
				prev = uint64(st.V[0])
			}
			rn.bg(func() { c.Membership(91, l, st.S, tgt, prev, 50*time.Millisecond) })
		}
	case "transfer":
		if l := c.Leader(); l != nil {
			var tgt *Node
			if len(st.N) > 0 && st.N[0] >= 0 {
				tgt = rn.node(st.N[0])
			}
			rn.bg(func() { c.Transfer(92, l, tgt) })
		}
	case "transfer-to-cut":
		// hand the leadership to a voter that has just become unreachable: the transfer stays in
		// progress until it times out
		if l := c.Leader(); l != nil {
			for _, nd := range c.Nodes {
				if nd != l && nd.Cur() != nil && c.IsVoterNow(l, nd) {
					tgt := nd
					rn.cutOff(tgt)
					rn.bg(func() { c.Transfer(92, l, tgt) })
					break
				}
			}
		}
	case "restore":
		if l := c.Leader(); l != nil {
			in := l.Cur()
			if in == nil {
				break
			}
			last := in.r.LastIndex()
			var mi uint64
			switch int(st.V[0]) {
			case 0:
				mi = 0
			case 1:
				mi = last / 2
			case 2:
				mi = last
			case 3:
				mi = last + 5
			case 4:
				mi = last + 1000
			}
			rn.restoreTag++
			tag := rn.restoreTag
			rn.bg(func() { c.UserRestore(93, l, mi, tag, time.Second) })
		}
	case "burst":
		if l := c.Leader(); l != nil {
			n := st.N[0]
			for i := 0; i < n; i++ {
				rn.ctr[15]++
				payload := fmt.Sprintf("b.%d k0", rn.ctr[15])
				rn.bg(func() { c.Apply(15, l, payload, 0) })
			}
		}
	case "verify":
		nd := rn.node(st.N[0])
		if st.N[0] < 0 {
			nd = c.Leader()
		}
		if nd != nil {
			rn.bg(func() { c.Verify(94, nd) })
		}
	case "sample":
		for _, nd := range c.Nodes {
			c.Sample(nd)
		}
	case "read":
		for _, nd := range c.Nodes {
			c.Reading(nd, st.S)
		}
	case "wait":
	}
}

// currentVoters returns the voters of nd's latest configuration.
func currentVoters(in *Inst) (voters []string, all []string) {
	cfg := in.r.GetConfiguration().Configuration()
	for _, s := range cfg.Servers {
		all = append(all, string(s.ID))
		if s.Suffrage == raft.Voter {
			voters = append(voters, string(s.ID))
		}
	}
	return
}

// leaseCut atomically cuts the current leader off from enough voters that no
// voter majority remains reachable. shape 0: from everybody; 1: from all
// voters, non-voters stay reachable; 2: a minority of voters stays reachable.
func (rn *Runner) leaseCut(shape int) {
	c := rn.C
	l := c.Leader()
	if l == nil {
		return
	}
	in := l.Cur()
	if in == nil {
		return
	}
	voters, all := currentVoters(in)
	isVoter := map[string]bool{}
	for _, v := range voters {
		isVoter[v] = true
	}
	keep := map[string]bool{}
	name := "all"
	switch shape {
	case 1:
		name = "voters-cut-nonvoters-reachable"
		for _, s := range all {
			if !isVoter[s] {
				keep[s] = true
			}
		}
	case 2:
		name = "minority-of-voters-reachable"
		// quorum needs len/2+1 including the leader; keep at most quorum-2 other voters
		allowed := len(voters)/2 + 1 - 2
		for _, v := range voters {
			if v != l.name && allowed > 0 {
				keep[v] = true
				allowed--
			}
		}
		for _, s := range all {
			if !isVoter[s] {
				keep[s] = true
			}
		}
	}
	var pairs [][2]string
	for _, o := range c.Nodes {
		if o != l && !keep[o.name] {
			pairs = append(pairs, [2]string{l.name, o.name}, [2]string{o.name, l.name})
		}
	}
	c.Net.CutMany(pairs)
	rn.lastCut = l
	// does the leader still reach a voter majority (e.g. it is the only voter)?
	reach := 0
	for _, v := range voters {
		if v == l.name || keep[v] {
			reach++
		}
	}
	if !isVoter[l.name] || reach >= len(voters)/2+1 {
		c.W.Log(Ev{K: "m.cut.majority-kept", S: l.name, X: name})
		return
	}
	l.disk.LogIfLive(in.ep, Ev{K: "m.lease.cut", A: uint64(c.P.LeaseMs), X: name, B: uint64(len(voters))})
}

// pvIsolate cuts the given servers (as a group) off from everybody else.
func (rn *Runner) pvIsolate(idx []int) {
	c := rn.C
	in := map[string]bool{}
	names := ""
	for _, i := range idx {
		if nd := rn.node(i); nd != nil {
			in[nd.name] = true
			names += nd.name + " "
		}
	}
	var pairs [][2]string
	for _, a := range c.Nodes {
		for _, b := range c.Nodes {
			if a != b && in[a.name] != in[b.name] {
				pairs = append(pairs, [2]string{a.name, b.name})
			}
		}
	}
	c.Net.CutMany(pairs)
	c.W.Log(Ev{K: "m.pv.isolate", X: names})
}

// crashLimited never takes down more servers than would leave fewer than a
// majority of the initial voters restartable: crashes are followed by
// restarts anyway, this only keeps executions lively.
func (rn *Runner) crashLimited(nd *Node) {
	rn.C.Crash(nd)
}

func (rn *Runner) restart(nd *Node) {
	if in := nd.Cur(); in != nil && in.r.State() == raft.Shutdown {
		// the server shut itself down (ShutdownOnRemove)
		rn.C.ShutdownNode(nd)
	}
	rn.C.Start(nd)
}

// Run executes the scenario to the end of the quiet tail and returns.
func Run(sc Scenario, w *World) *Runner {
	c := NewCluster(w, sc.Seed*131+int64(sc.Idx), sc.P)
	rn := &Runner{C: c, Sc: sc, rng: rand.New(rand.NewSource(sc.Seed ^ 0x72756e)), t0: time.Now(), stopClients: make(chan struct{})}
	if sc.AutoRestartMs > 0 {
		c.AutoRestart = time.Duration(sc.AutoRestartMs) * time.Millisecond
	}
	w.Log(Ev{K: "Lparams", X: CfgString(c.InitialConfiguration()), A: uint64(sc.P.ElectionMs), B: uint64(sc.P.LeaseMs), C: uint64(sc.P.HeartbeatMs), D: sc.P.Trailing, E: uint64(sc.P.MaxAppend), F: b2u(sc.P.Flavor.Monotonic), Y: sc.Family, Z: fmt.Sprintf("notify_delay_ms=%d", sc.P.NotifyDelayMs)})
	c.Bootstrap()
	for cl := 0; cl < sc.Clients; cl++ {
		rn.cwg.Add(1)
		go rn.client(cl)
	}
	// sampler: (term, leader, state, term) of every server at seeded instants (C18.3)
	rn.cwg.Add(1)
	go func() {
		defer rn.cwg.Done()
		rng := rand.New(rand.NewSource(sc.Seed ^ 0x73616d70))
		period := sc.P.HeartbeatMs / 6
		if sc.Quiet {
			period = sc.P.HeartbeatMs * 2
		}
		for {
			select {
			case <-rn.stopClients:
				return
			default:
			}
			time.Sleep(time.Duration(1+rng.Intn(period+1)) * time.Millisecond)
			c.Sample(c.Nodes[rng.Intn(len(c.Nodes))])
		}
	}()
	if f := scripts[sc.Script]; f != nil {
		f(rn)
	}
	for _, st := range sc.Steps {
		rn.sleepUntil(st.At)
		rn.doStep(st)
	}
	rn.sleepUntil(sc.EndMs)

	// ---- quiet tail ----
	c.AutoRestart = 0
	for _, nd := range c.Nodes {
		nd.disk.Disarm()
	}
	c.Net.SetFaults(0, 0, 0, 0, 0)
	c.Net.Heal()
	w.Log(Ev{K: "m.tail.begin"})
	rn.bgCalls.Wait() // clean shutdowns still in progress must finish before their servers can restart
	if !sc.NoTailRestart {
		for _, nd := range c.Nodes {
			if rn.tailDown[nd] {
				w.Log(Ev{K: "m.tail.staysdown", X: nd.name})
				continue
			}
			rn.restart(nd)
		}
	}
	w.Log(Ev{K: "m.tail.quiet"})
	budget := ConvergenceBudget(sc.P)
	if sc.TailMs > 0 {
		budget = time.Duration(sc.TailMs) * time.Millisecond
	}
	time.Sleep(budget / 2)
	close(rn.stopClients)
	rn.cwg.Wait()
	rn.bgCalls.Wait()
	time.Sleep(budget / 2)
	// Catch-up of a long backlog (small MaxAppendEntries, slow FSM) legitimately takes longer than
	// the election part of the budget: keep waiting while every lagging member still advances;
	// stop as soon as nobody moved for five election timeouts (that is the "no progress" verdict).
	rn.waitCatchUp()
	// readings before anything new is written: a member must reach the leader's commit index
	// without the help of further entries
	time.Sleep(2 * time.Duration(sc.P.ElectionMs) * time.Millisecond)
	for _, nd := range c.Nodes {
		c.Reading(nd, "preprobe")
	}
	w.Log(Ev{K: "m.tail.probe"})
	// probe write on the leader
	if l := c.Leader(); l != nil {
		res := c.Apply(14, l, "probe.1 k0", time.Second)
		if res.Err == nil && !res.Stranded {
			// allow followers to learn the commit index and apply
			time.Sleep(2 * time.Second)
			rn.waitFSMs(res.Index)
		}
	}
	for _, nd := range c.Nodes {
		c.Sample(nd)
	}
	for _, nd := range c.Nodes {
		c.Reading(nd, "final")
	}
	w.Log(Ev{K: "m.tail.end", A: uint64(c.Net.Spin)})
	return rn
}

// ShutdownAll shuts every incarnation down (C17 shutdown phase included when
// the scenario asks for it) and waits for the background shutdowns.
func (rn *Runner) ShutdownAll() {
	c := rn.C
	var insts []*Inst
	for _, nd := range c.Nodes {
		if in := c.ShutdownNode(nd); in != nil {
			insts = append(insts, in)
		}
	}
	if rn.Sc.ShutdownPhase {
		for i, in := range insts {
			nd := in.n
			_ = nd
			cl := 100 + i
			c.CallInst(cl, in, "apply", fmt.Sprintf("post.%d k0", i), 0, func(r *raft.Raft) raft.Future { return r.Apply([]byte(fmt.Sprintf("post.%d k0", i)), 0) })
			c.CallInst(cl, in, "barrier", "", 0, func(r *raft.Raft) raft.Future { return r.Barrier(0) })
			c.CallInst(cl, in, "verify", "", 0, func(r *raft.Raft) raft.Future { return r.VerifyLeader() })
			c.CallInst(cl, in, "snapshot", "", 0, func(r *raft.Raft) raft.Future { return r.Snapshot() })
			c.CallInst(cl, in, "transfer", "", 0, func(r *raft.Raft) raft.Future { return r.LeadershipTransfer() })
			c.CallInst(cl, in, "getconfig", "", 0, func(r *raft.Raft) raft.Future { return r.GetConfiguration() })
			c.CallInst(cl, in, "addvoter", "s0", 0, func(r *raft.Raft) raft.Future { return r.AddVoter("s0", "s0", 0, 0) })
			c.CallInst(cl, in, "bootstrap", "", 0, func(r *raft.Raft) raft.Future { return r.BootstrapCluster(c.InitialConfiguration()) })
		}
	}
	c.bg.Wait()
	c.W.Log(Ev{K: "m.end"})
}

// waitFSMs: raft counts an entry as applied once it is queued for the FSM routine; a
// slow FSM works through that (bounded) queue later. The final FSM states are only
// comparable once every member that raft reports at the probe index has also been
// handed the probe; give up when no FSM moved for five election timeouts.
func (rn *Runner) waitFSMs(probe uint64) {
	c := rn.C
	el := time.Duration(rn.Sc.P.ElectionMs) * time.Millisecond
	last := map[*Node]uint64{}
	idle, ext := 0, 0
	for i := 0; i < 3000 && idle < 5; i++ {
		behind, moved := false, false
		for _, nd := range c.Nodes {
			in := nd.Cur()
			if in == nil || in.r.AppliedIndex() < probe {
				continue
			}
			a := in.fsm.State().Last
			if a < probe {
				behind = true
			}
			if a > last[nd] {
				moved = true
			}
			last[nd] = a
		}
		if !behind {
			break
		}
		if moved {
			idle = 0
		} else {
			idle++
		}
		ext++
		time.Sleep(el)
	}
	if ext > 0 {
		c.W.Log(Ev{K: "m.tail.fsmwait", A: uint64(ext)})
	}
}

// waitCatchUp: see Run.
func (rn *Runner) waitCatchUp() {
	c := rn.C
	el := time.Duration(rn.Sc.P.ElectionMs) * time.Millisecond
	last := map[*Node]uint64{}
	idle := 0
	ext := 0
	for i := 0; i < 3000 && idle < 5; i++ {
		l := c.Leader()
		if l == nil {
			return
		}
		lin := l.Cur()
		if lin == nil {
			return
		}
		target := lin.r.AppliedIndex()
		behind, moved := false, false
		for _, nd := range c.Nodes {
			in := nd.Cur()
			if in == nil || nd == l {
				continue
			}
			a := in.r.AppliedIndex()
			if a < target {
				behind = true
			}
			if a > last[nd] {
				moved = true
			}
			last[nd] = a
		}
		if !behind {
			break
		}
		if moved {
			idle = 0
		} else {
			idle++
		}
		ext++
		time.Sleep(el)
	}
	if ext > 0 {
		c.W.Log(Ev{K: "m.tail.extended", A: uint64(ext)})
	}
}
