package sim

import (
	"fmt"
	"time"

	"github.com/hashicorp/raft"
)

// scripts are programmatic nemeses: they react to the state of the cluster
// (who is leader) instead of following a fixed timetable.
var scripts = map[string]func(rn *Runner){
	"fig8x":        scriptFig8x,
	"cfgtrunc":     scriptCfgTrunc,
	"snapcfg":      scriptSnapCfg,
	"xfervote":     scriptXferVote,
	"snapterm":     scriptSnapTerm,
	"cfggate":      scriptCfgGate,
	"longstale":    scriptLongStale,
	"notifyblock":  scriptNotifyBlock,
	"cfgquorum":    scriptCfgQuorum,
	"staletn":      scriptStaleTN,
	"promote":      scriptPromote,
	"dupae":        scriptDupAE,
	"monofail":     scriptMonoFail,
	"snaptrunc":    scriptSnapTrunc,
	"snapleader":   scriptSnapLeader,
	"snapfallback": scriptSnapFallback,
	"restorefail":  scriptRestoreFail,
	"snapvote":     scriptSnapVote,
	"restoreedge":  scriptRestoreEdge,
	"deposeae":     scriptDeposeAE,
}

func (rn *Runner) el() time.Duration {
	return time.Duration(rn.Sc.P.ElectionMs) * time.Millisecond
}

// waitLeader waits (virtual time) until some running server among `among`
// (nil = any) reports Leader, at most n election timeouts.
func (rn *Runner) waitLeader(among map[*Node]bool, n int) *Node {
	for i := 0; i < n*20; i++ {
		for _, nd := range rn.C.Leaders() {
			if among == nil || among[nd] {
				return nd
			}
		}
		time.Sleep(rn.el() / 20)
	}
	return nil
}

func (rn *Runner) note(f string, a ...interface{}) {
	rn.C.W.Log(Ev{K: "m.script", X: fmt.Sprintf(f, a...)})
}

func (rn *Runner) cutGroups(a map[*Node]bool) {
	c := rn.C
	var pairs [][2]string
	for _, x := range c.Nodes {
		for _, y := range c.Nodes {
			if x != y && a[x] != a[y] {
				pairs = append(pairs, [2]string{x.name, y.name})
			}
		}
	}
	c.Net.CutMany(pairs)
}

func (rn *Runner) applyBurst(nd *Node, n int, tag string) {
	if nd == nil {
		return
	}
	for i := 0; i < n; i++ {
		rn.ctr[12]++
		payload := fmt.Sprintf("%s.%d k0", tag, rn.ctr[12])
		rn.bg(func() { rn.C.Apply(12, nd, payload, 50*time.Millisecond) })
	}
}

// scriptFig8x: see genFig8x.
func scriptFig8x(rn *Runner) {
	c := rn.C
	A := rn.waitLeader(nil, 20)
	if A == nil {
		rn.note("no first leader")
		return
	}
	time.Sleep(2 * rn.el())
	A = rn.waitLeader(nil, 20)
	if A == nil {
		return
	}
	// (a) A and one follower B are cut off together; A takes writes that only B can get
	var B *Node
	for _, nd := range c.Nodes {
		if nd != A {
			B = nd
			break
		}
	}
	rn.note("A=%s B=%s", A.name, B.name)
	rn.cutGroups(map[*Node]bool{A: true, B: true})
	rn.applyBurst(A, 1+rn.rng.Intn(3), "a")
	time.Sleep(rn.el() / 2)
	c.Crash(A)
	c.Crash(B)
	// (b) whoever wins among the rest crashes right after storing its first entry (the no-op),
	// before anything is replicated
	rest := map[*Node]bool{}
	for _, nd := range c.Nodes {
		if nd != A && nd != B {
			rest[nd] = true
		}
	}
	for nd := range rest {
		nd.disk.Arm(Fault{Kind: "store", Nth: 1, When: "after"})
	}
	var E *Node
	for i := 0; i < 400 && E == nil; i++ {
		time.Sleep(rn.el() / 10)
		for nd := range rest {
			if nd.Cur() == nil {
				E = nd
			}
		}
	}
	for nd := range rest {
		nd.disk.Disarm()
	}
	if E == nil {
		rn.note("nobody crashed on its first store")
		return
	}
	rn.note("E=%s crashed after storing its no-op", E.name)
	// (c) A and B come back; the two others can store one more batch and then fail their stores,
	// so the old-term entries reach a majority but the new leader's no-op does not
	c.Net.Heal()
	last := A.disk.LastLogIndex()
	if l := B.disk.LastLogIndex(); l > last {
		last = l
	}
	for nd := range rest {
		if nd != E {
			// exactly the old-term backlog can be stored (MaxAppendEntries is 1), nothing after it
			need := int(last) - int(nd.disk.LastLogIndex())
			if need < 0 {
				need = 0
			}
			nd.disk.FailAfter("store", need)
		}
	}
	c.Start(A)
	c.Start(B)
	withE := rn.rng.Intn(2) == 0
	if withE {
		// variant: E is back already and is sent the old-term entries over its higher-term no-op
		c.Start(E)
	}
	L := rn.waitLeader(map[*Node]bool{A: true, B: true}, 40)
	if L == nil {
		rn.note("neither A nor B won")
	} else {
		rn.note("L=%s leads term %d", L.name, L.Cur().r.CurrentTerm())
	}
	time.Sleep(3 * rn.el())
	// (d) A and B go away, E returns: its last term is higher than what the others hold
	c.Crash(A)
	c.Crash(B)
	for nd := range rest {
		nd.disk.Disarm()
	}
	if withE {
		c.Crash(E)
	}
	c.Start(E)
	if w := rn.waitLeader(rest, 40); w != nil {
		rn.note("W=%s leads term %d", w.name, w.Cur().r.CurrentTerm())
		rn.applyBurst(w, 2, "w")
	}
	time.Sleep(3 * rn.el())
	c.Start(A)
	c.Start(B)
	time.Sleep(2 * rn.el())
}

var _ = raft.Leader

// scriptCfgTrunc (C07): an uncommitted configuration entry reaches one
// follower only, its leader is deposed, and the new leader's first entry lands
// on the very same index: the follower has to truncate exactly its latest
// configuration entry and fall back to the committed configuration.
func scriptCfgTrunc(rn *Runner) {
	c := rn.C
	L := rn.waitLeader(nil, 20)
	if L == nil {
		return
	}
	time.Sleep(2 * rn.el())
	if L = rn.waitLeader(nil, 20); L == nil {
		return
	}
	rn.applyBurst(L, rn.rng.Intn(4), "p")
	time.Sleep(rn.el())
	// F: a server other than the leader (the non-voter if there is one)
	var F *Node
	for i := len(c.Nodes) - 1; i >= 0; i-- {
		if c.Nodes[i] != L && c.Nodes[i].Cur() != nil {
			F = c.Nodes[i]
			break
		}
	}
	if F == nil {
		return
	}
	rn.note("L=%s F=%s", L.name, F.name)
	rn.cutGroups(map[*Node]bool{L: true, F: true})
	op := "addvoter"
	tgt := F
	if rn.rng.Intn(3) == 0 {
		op = pick(rn.rng, "demote", "remove", "addnonvoter")
		for _, nd := range c.Nodes {
			if nd != L && nd != F {
				tgt = nd
			}
		}
	}
	rn.bg(func() { c.Membership(91, L, op, tgt, 0, 50*time.Millisecond) })
	// the rest elects a leader whose no-op takes the same index
	rest := map[*Node]bool{}
	for _, nd := range c.Nodes {
		if nd != L && nd != F {
			rest[nd] = true
		}
	}
	W := rn.waitLeader(rest, 40)
	if W != nil {
		rn.note("W=%s", W.name)
	}
	time.Sleep(rn.el())
	c.Net.Heal()
	time.Sleep(4 * rn.el())
	for _, nd := range c.Nodes {
		c.Reading(nd, "quiet")
	}
	if rn.rng.Intn(2) == 0 {
		// does F, left alone, start campaigning although the committed configuration gives it no vote?
		rn.cutGroups(map[*Node]bool{F: true})
		time.Sleep(6 * rn.el())
		c.Net.Heal()
		time.Sleep(2 * rn.el())
	}
	// L and F each with one other server only: half of an even number of voters is no majority, whatever
	// configuration L or F still carry in memory from the entry they had to truncate (C05)
	for _, X := range []*Node{L, F} {
		var Y *Node
		for _, nd := range c.Nodes {
			if nd != L && nd != F && nd.Cur() != nil {
				Y = nd
			}
		}
		if Y == nil || X.Cur() == nil {
			continue
		}
		rn.cutGroups(map[*Node]bool{X: true, Y: true})
		if w := rn.waitLeader(map[*Node]bool{X: true, Y: true}, 8); w != nil {
			rn.applyBurst(w, 2, "half")
		}
		time.Sleep(3 * rn.el())
		c.Net.Heal()
		time.Sleep(3 * rn.el())
	}
}

// scriptSnapCfg (C10, C11): snapshots are requested while membership changes
// commit on a busy FSM; then the server crashes and restarts from that snapshot.
func scriptSnapCfg(rn *Runner) {
	c := rn.C
	if rn.Sc.P.RestoreCommitted {
		scriptSnapCfgRC(rn)
		return
	}
	for round := 0; round < 4; round++ {
		L := rn.waitLeader(nil, 30)
		if L == nil {
			return
		}
		time.Sleep(rn.el())
		if L = rn.waitLeader(nil, 30); L == nil {
			return
		}
		// a spare / non-voter to add or remove
		tgt := c.Nodes[len(c.Nodes)-1]
		if tgt == L {
			tgt = c.Nodes[0]
		}
		op := []string{"addnonvoter", "remove", "addvoter", "demote"}[round%4]
		rn.applyBurst(L, 4+rn.rng.Intn(6), "s")
		time.Sleep(time.Duration(rn.rng.Intn(20)) * time.Millisecond)
		rn.bg(func() { c.Snapshot(90, L) })
		time.Sleep(time.Duration(rn.rng.Intn(5)) * time.Millisecond)
		rn.bg(func() { c.Membership(91, L, op, tgt, 0, 100*time.Millisecond) })
		time.Sleep(3 * rn.el())
		if rn.rng.Intn(3) != 0 {
			c.Crash(L)
			time.Sleep(rn.el() / 2)
			c.Start(L)
		}
		time.Sleep(2 * rn.el())
	}
}

// scriptXferVote: leader A can reach only C and hands leadership to it (TimeoutNow: C campaigns
// for term T+1 with the leadership-transfer flag, which overrides "we have a leader" at the
// voters). The other three voters lose A, elect one of themselves in the same term T+1 - and one
// of them, D, receives C's request only after it has voted. A voter votes once per term, whatever
// flag the request carries; if D votes again, C (with A, C, D) and the other winner both lead T+1.
func scriptXferVote(rn *Runner) {
	c := rn.C
	for round := 0; round < 3; round++ {
		A := rn.waitLeader(nil, 20)
		if A == nil {
			rn.note("no leader")
			return
		}
		time.Sleep(2 * time.Duration(rn.Sc.P.HeartbeatMs) * time.Millisecond)
		if A = rn.waitLeader(nil, 20); A == nil {
			return
		}
		var voters []*Node
		for _, nd := range c.Nodes {
			if nd != A && nd.Cur() != nil && c.IsVoterNow(A, nd) {
				voters = append(voters, nd)
			}
		}
		if len(voters) < 4 {
			rn.note("not enough voters")
			return
		}
		rn.rng.Shuffle(len(voters), func(i, j int) { voters[i], voters[j] = voters[j], voters[i] })
		C, D, rest := voters[0], voters[1], voters[2:]
		rn.note("A=%s C=%s D=%s", A.name, C.name, D.name)
		rn.applyBurst(A, rn.rng.Intn(3), "x")
		time.Sleep(time.Duration(rn.Sc.P.HeartbeatMs/2) * time.Millisecond)
		// A and C on one side; C's requests still reach D, but late
		var pairs [][2]string
		for _, x := range append([]*Node{D}, rest...) {
			pairs = append(pairs, [2]string{A.name, x.name}, [2]string{x.name, A.name})
		}
		for _, x := range rest {
			pairs = append(pairs, [2]string{C.name, x.name}, [2]string{x.name, C.name})
		}
		c.Net.CutMany(pairs)
		late := time.Duration(rn.Sc.P.HeartbeatMs*(3+rn.rng.Intn(4))) * time.Millisecond
		c.Net.SetLinkDelay(C.name, D.name, late)
		if rn.rng.Intn(4) > 0 {
			// D's log store fails meanwhile: it can vote (the vote goes to the stable store) but
			// does not take the new leader's entries, so its log does not get ahead of C's
			D.disk.FailAfter("store", 0)
		}
		rn.bg(func() { c.Transfer(13, A, C) })
		// long enough for the others to elect and for the late request to arrive, within C's candidacy
		time.Sleep(time.Duration(rn.Sc.P.ElectionMs) * time.Millisecond)
		D.disk.Disarm()
		c.Net.Heal()
		time.Sleep(3 * rn.el())
	}
}

func (rn *Runner) cutOff(nd *Node) {
	rn.cutGroups(map[*Node]bool{nd: true})
}

// waitLeaderIs waits until nd reports Leader (n election timeouts at most).
func (rn *Runner) waitLeaderIs(nd *Node, n int) bool {
	return rn.waitLeader(map[*Node]bool{nd: true}, n) == nd
}

// scriptSnapTerm: C misses a term, catches up through InstallSnapshot, is made leader by a
// transfer and takes a snapshot of its own before any command has gone through its FSM; X
// missed C's election and has to be probed at prev == C's snapshot index, where the request's
// previous term comes from C's snapshot record and not from its log.
func scriptSnapTerm(rn *Runner) {
	c := rn.C
	for round := 0; round < 2; round++ {
		L := rn.waitLeader(nil, 30)
		if L == nil {
			return
		}
		time.Sleep(rn.el())
		if L = rn.waitLeader(nil, 30); L == nil {
			return
		}
		var others []*Node
		for _, nd := range c.Nodes {
			if nd != L && nd.Cur() != nil {
				others = append(others, nd)
			}
		}
		if len(others) < 2 {
			return
		}
		rn.rng.Shuffle(len(others), func(i, j int) { others[i], others[j] = others[j], others[i] })
		C, F := others[0], others[1]
		rn.note("L=%s C=%s F=%s", L.name, C.name, F.name)
		rn.applyBurst(L, 3+rn.rng.Intn(4), "t1")
		time.Sleep(rn.el())
		// C misses the next term
		rn.cutOff(C)
		c.Transfer(13, L, F)
		if !rn.waitLeaderIs(F, 10) {
			rn.note("transfer to F did not happen")
			c.Net.Heal()
			continue
		}
		rn.applyBurst(F, 3+rn.rng.Intn(4), "t2")
		time.Sleep(rn.el())
		c.Snapshot(90, F)
		time.Sleep(rn.el() / 2)
		c.Net.Heal()
		// C catches up (through InstallSnapshot when the entries it lacks are compacted away)
		target := F.Cur().r.AppliedIndex()
		for i := 0; i < 200; i++ {
			if in := C.Cur(); in != nil && in.r.AppliedIndex() >= target {
				break
			}
			time.Sleep(rn.el() / 10)
		}
		// X misses C's election
		X := L
		if len(others) > 2 && rn.rng.Intn(2) == 0 {
			X = others[2]
		}
		rn.cutOff(X)
		c.Transfer(13, F, C)
		if !rn.waitLeaderIs(C, 10) {
			rn.note("transfer to C did not happen")
			c.Net.Heal()
			continue
		}
		time.Sleep(rn.el() / 2)
		c.Snapshot(90, C)
		time.Sleep(rn.el() / 2)
		c.Net.Heal()
		time.Sleep(3 * rn.el())
		rn.applyBurst(C, 2, "t3")
		time.Sleep(2 * rn.el())
	}
}

// slowAll delays every request between every pair of servers by d (0 = back to normal).
func (rn *Runner) slowAll(d time.Duration) {
	for _, x := range rn.C.Nodes {
		for _, y := range rn.C.Nodes {
			if x != y {
				rn.C.Net.SetLinkDelay(x.name, y.name, d)
			}
		}
	}
}

// waitNewLeader polls every millisecond for a leader other than `not`.
func (rn *Runner) waitNewLeader(not *Node, among map[*Node]bool, ms int) *Node {
	for i := 0; i < ms; i++ {
		for _, nd := range rn.C.Leaders() {
			if nd != not && (among == nil || among[nd]) {
				return nd
			}
		}
		time.Sleep(time.Millisecond)
	}
	return nil
}

// scriptCfgGate: the leader disappears, every request takes a while on the wire, and the next
// leader is asked for a membership change in the instant it is elected: its own no-op cannot be
// committed yet, so the change has to wait.
func scriptCfgGate(rn *Runner) {
	c := rn.C
	hb := time.Duration(rn.Sc.P.HeartbeatMs) * time.Millisecond
	for round := 0; round < 4; round++ {
		L := rn.waitLeader(nil, 30)
		if L == nil {
			return
		}
		time.Sleep(rn.el())
		if L = rn.waitLeader(nil, 30); L == nil {
			return
		}
		rn.applyBurst(L, 1+rn.rng.Intn(3), "g")
		time.Sleep(2 * hb)
		rn.slowAll(hb / 2)
		uncommitted := rn.rng.Intn(3) == 0
		if uncommitted {
			// the next leader inherits entries that are not committed yet
			rn.applyBurst(L, 2, "u")
			time.Sleep(hb / 4)
		}
		if rn.rng.Intn(2) == 0 {
			c.Crash(L)
		} else {
			rn.cutOff(L)
		}
		N := rn.waitNewLeader(L, nil, 20*rn.Sc.P.ElectionMs)
		if N == nil {
			rn.note("no new leader")
			c.Net.Heal()
			c.Start(L)
			continue
		}
		// a target other than the new leader
		var tgt *Node
		for _, nd := range c.Nodes {
			if nd != N && (tgt == nil || rn.rng.Intn(2) == 0) {
				tgt = nd
			}
		}
		op := pick(rn.rng, "remove", "demote", "addnonvoter", "addvoter")
		rn.note("new leader %s asked to %s %s at once (uncommitted tail: %v)", N.name, op, tgt.name, uncommitted)
		rn.bg(func() { c.Membership(91, N, op, tgt, 0, 3*hb) })
		time.Sleep(4 * hb)
		c.Net.Heal()
		c.Start(L)
		time.Sleep(3 * rn.el())
	}
}

// scriptCfgQuorum: four voters {O, A, B, V}. O is cut off and appends "remove A" to its own log only.
// A or B wins the next term with V's vote, but V's log store fails, so nothing the new leader sends
// is stored on V; asked to remove O at once, a leader that does not wait for its own no-op commits
// the removal with A and B alone (2 of {A, B, V}) and acknowledges it and a write. Then only O and V
// can talk: O wins with V's vote under its own configuration {O, B, V} and overwrites what was
// acknowledged. With the gate in place the second leader's no-op needs 3 of {O, A, B, V}, which it
// cannot get, and nothing is acknowledged.
func scriptCfgQuorum(rn *Runner) {
	c := rn.C
	hb := time.Duration(rn.Sc.P.HeartbeatMs) * time.Millisecond
	O := rn.waitLeader(nil, 30)
	if O == nil {
		return
	}
	time.Sleep(rn.el())
	if O = rn.waitLeader(nil, 30); O == nil {
		return
	}
	var rest []*Node
	for _, nd := range c.Nodes {
		if nd != O {
			rest = append(rest, nd)
		}
	}
	if len(rest) != 3 {
		return
	}
	rn.rng.Shuffle(3, func(i, j int) { rest[i], rest[j] = rest[j], rest[i] })
	A, B, V := rest[0], rest[1], rest[2]
	rn.note("O=%s A=%s B=%s V=%s", O.name, A.name, B.name, V.name)
	rn.applyBurst(O, 2, "q")
	time.Sleep(2 * hb)
	rn.cutOff(O)
	rn.bg(func() { c.Membership(91, O, "remove", A, 0, 2*hb) })
	time.Sleep(hb / 2)
	V.disk.FailAfter("store", 0)
	ab := map[*Node]bool{A: true, B: true}
	N := rn.waitNewLeader(O, ab, 20*rn.Sc.P.ElectionMs)
	if N == nil {
		rn.note("neither A nor B won")
		V.disk.Disarm()
		c.Net.Heal()
		return
	}
	rn.bg(func() { c.Membership(91, N, "remove", O, 0, 3*hb) })
	time.Sleep(2 * hb)
	rn.applyBurst(N, 2, "w")
	time.Sleep(3 * hb)
	// now only O and V can talk
	V.disk.Disarm()
	c.Net.Heal()
	rn.cutGroups(map[*Node]bool{O: true, V: true})
	time.Sleep(6 * rn.el())
	c.Net.Heal()
	time.Sleep(4 * rn.el())
}

// scriptLongStale: leader A is cut off and keeps taking writes nobody else gets; the rest elects B,
// which commits fewer entries than A has appended and then goes down for good (a minority). What
// is left - A with the longer log that ends in the older term, and followers with B's shorter log
// that ends in the newer term - is a majority that can talk: one of the followers has to win (A
// must grant: a newer last term beats a longer log), and A has to be repaired.
func scriptLongStale(rn *Runner) {
	c := rn.C
	hb := time.Duration(rn.Sc.P.HeartbeatMs) * time.Millisecond
	A := rn.waitLeader(nil, 30)
	if A == nil {
		return
	}
	time.Sleep(rn.el())
	if A = rn.waitLeader(nil, 30); A == nil {
		return
	}
	rn.applyBurst(A, 2, "l")
	time.Sleep(2 * hb)
	rn.cutOff(A)
	rn.applyBurst(A, 6+rn.rng.Intn(8), "stale")
	B := rn.waitNewLeader(A, nil, 20*rn.Sc.P.ElectionMs)
	if B == nil {
		rn.note("no second leader")
		c.Net.Heal()
		return
	}
	rn.applyBurst(B, 1+rn.rng.Intn(2), "new")
	time.Sleep(3 * hb)
	rn.note("A=%s (stale, long) B=%s (goes down)", A.name, B.name)
	c.Crash(B)
	if rn.tailDown == nil {
		rn.tailDown = map[*Node]bool{}
	}
	rn.tailDown[B] = true
	c.Net.Heal()
	time.Sleep(2 * rn.el())
}

// scriptNotifyBlock: the leader is cut off; the first of the others to win sits in runLeader
// delivering `true` to a NotifyCh consumer that takes several election timeouts, so it sends
// nothing; the third server times out in turn and, once the old leader is back to vote, wins a
// later term and deposes the blocked one through the heartbeat fast path.
func scriptNotifyBlock(rn *Runner) {
	c := rn.C
	for round := 0; round < 4; round++ {
		L := rn.waitLeader(nil, 40)
		if L == nil {
			return
		}
		time.Sleep(2 * rn.el())
		if L = rn.waitLeader(nil, 40); L == nil {
			return
		}
		rn.applyBurst(L, 1+rn.rng.Intn(2), "n")
		time.Sleep(rn.el() / 2)
		rn.cutOff(L)
		N := rn.waitNewLeader(L, nil, 20*rn.Sc.P.ElectionMs)
		if N == nil {
			c.Net.Heal()
			continue
		}
		rn.note("N=%s elected, its notification is still being delivered", N.name)
		time.Sleep(rn.el() / 2)
		c.Net.Heal() // the old leader can vote again
		time.Sleep(time.Duration(rn.Sc.P.NotifyDelayMs)*time.Millisecond + 3*rn.el())
	}
}

// scriptStaleTN: TimeoutNow carries no term, so a copy that the network delivers late is obeyed by
// whoever receives it, in whatever state: the transfer target that has meanwhile won its election
// leaves runLeader as a *candidate* (the one way a leader loses leadership without becoming a
// follower first), a follower campaigns with the transfer flag although its leader is healthy.
func scriptStaleTN(rn *Runner) {
	c := rn.C
	hb := time.Duration(rn.Sc.P.HeartbeatMs) * time.Millisecond
	for round := 0; round < 5; round++ {
		L := rn.waitLeader(nil, 30)
		if L == nil {
			return
		}
		time.Sleep(rn.el())
		if L = rn.waitLeader(nil, 30); L == nil {
			return
		}
		var voters, others []*Node
		for _, nd := range c.Nodes {
			if nd != L && nd.Cur() != nil && c.IsVoterNow(L, nd) {
				voters = append(voters, nd)
			} else if nd != L && nd.Cur() != nil && c.IsMemberNow(L, nd) {
				others = append(others, nd)
			}
		}
		if len(voters)+len(others) == 0 {
			return
		}
		var T *Node
		switch {
		case len(others) > 0 && (len(voters) == 0 || rn.rng.Intn(3) == 0):
			// the API lets a leader hand over to a server without a vote: it campaigns (TimeoutNow is
			// obeyed unconditionally) but must never be counted or win
			T = others[rn.rng.Intn(len(others))]
		default:
			T = voters[rn.rng.Intn(len(voters))]
			if len(voters) >= 2 && rn.rng.Intn(4) == 0 {
				// ... or to a voter that loses its vote while the TimeoutNow is on its way
				rn.note("demote %s first", T.name)
				c.Membership(91, L, "demote", T, 0, 2*hb)
			}
		}
		// the copy arrives while T is still campaigning, just after it has won, or long after
		d := pick(rn.rng, time.Millisecond, 3*time.Millisecond, hb/4, hb, 2*rn.el())
		c.Net.SetKindDup("tn", d)
		rn.note("transfer %s -> %s, TimeoutNow repeated after %v", L.name, T.name, d)
		rn.applyBurst(L, rn.rng.Intn(3), "tn")
		c.Transfer(13, L, T)
		time.Sleep(d + hb/2)
		for _, nd := range c.Nodes {
			c.Sample(nd)
		}
		c.Net.SetKindDup("tn", 0)
		time.Sleep(3 * rn.el())
		for _, nd := range c.Nodes {
			c.Reading(nd, "quiet")
		}
	}
}

// scriptPromote: the usual way a cluster grows - a server joins as a non-voter, catches up and is
// promoted - all under ONE leadership, so whatever the leader cached about a peer when replication
// to it started (suffrage, address) is by now out of date. After every step the leader is asked to
// verify its leadership, to pass a barrier and to take a write; at the end it is cut off with a
// verification pending, so the step-down path has to answer it.
func scriptPromote(rn *Runner) {
	c := rn.C
	hb := time.Duration(rn.Sc.P.HeartbeatMs) * time.Millisecond
	L := rn.waitLeader(nil, 30)
	if L == nil {
		return
	}
	time.Sleep(rn.el())
	if L = rn.waitLeader(nil, 30); L == nil {
		return
	}
	ask := func() {
		l := L
		rn.bg(func() { c.Verify(94, l) })
		rn.bg(func() { c.Barrier(95, l, 50*time.Millisecond) })
		rn.applyBurst(l, 1, "pr")
	}
	var spares []*Node
	for i := rn.Sc.P.Voters + rn.Sc.P.NonVoters; i < len(c.Nodes); i++ {
		spares = append(spares, c.Nodes[i])
	}
	for i := rn.Sc.P.Voters; i < rn.Sc.P.Voters+rn.Sc.P.NonVoters; i++ {
		spares = append(spares, c.Nodes[i]) // initial non-voters are promoted as well
	}
	step := func(op string, tgt *Node) {
		if c.Leader() != L {
			return
		}
		rn.note("%s %s under leader %s", op, tgt.name, L.name)
		c.Membership(91, L, op, tgt, 0, 2*hb)
		time.Sleep(hb / 2)
		ask()
		time.Sleep(hb)
	}
	for _, sp := range spares {
		step("addnonvoter", sp)
	}
	time.Sleep(2 * hb)
	for _, sp := range spares {
		step("addvoter", sp)
	}
	// the voters the leader started with go away: from now on every quorum needs promoted servers
	if rn.rng.Intn(2) == 0 {
		var old []*Node
		for i := 0; i < rn.Sc.P.Voters; i++ {
			if c.Nodes[i] != L {
				old = append(old, c.Nodes[i])
			}
		}
		switch rn.rng.Intn(3) {
		case 0:
			for _, o := range old {
				step(pick(rn.rng, "demote", "remove"), o)
			}
		case 1:
			for _, o := range old {
				rn.cutOff(o)
				break
			}
			time.Sleep(hb)
			ask()
		}
	}
	for k := 0; k < 3; k++ {
		ask()
		time.Sleep(hb)
	}
	if len(spares) > 0 && rn.rng.Intn(2) == 0 {
		// demote and promote again
		step("demote", spares[0])
		step("addvoter", spares[0])
		ask()
	}
	time.Sleep(2 * hb)
	for _, nd := range c.Nodes {
		c.Reading(nd, "quiet")
	}
	// the leader loses its majority with verifications pending
	if c.Leader() == L {
		l := L
		rn.cutOff(L)
		for k := 0; k < 3; k++ {
			rn.bg(func() { c.Verify(94, l) })
			time.Sleep(time.Duration(rn.Sc.P.LeaseMs/2+1) * time.Millisecond)
		}
		time.Sleep(3 * rn.el())
		c.Net.Heal()
		time.Sleep(3 * rn.el())
	}
}

// scriptSnapCfgRC (C10, C11; RestoreCommittedLogs on a commit-tracking store): every server is
// stopped at the moment its durable commit index is exactly the index of the newest configuration
// entry (one more batch was stored after the change committed, and that batch carried the commit
// index). After the restart the servers replay up to that entry, somebody leads, snapshots with few
// trailing logs, and everybody restarts once more - now from the snapshot.
func scriptSnapCfgRC(rn *Runner) {
	c := rn.C
	for round := 0; round < 3; round++ {
		L := rn.waitLeader(nil, 30)
		if L == nil {
			return
		}
		time.Sleep(rn.el())
		if L = rn.waitLeader(nil, 30); L == nil {
			return
		}
		tgt := c.Nodes[len(c.Nodes)-1]
		if tgt == L {
			tgt = c.Nodes[0]
		}
		op := []string{"addnonvoter", "remove", "addvoter"}[round%3]
		rn.applyBurst(L, 2+rn.rng.Intn(3), "rc")
		time.Sleep(rn.el() / 2)
		res := c.Membership(91, L, op, tgt, 0, 100*time.Millisecond)
		if res.Err != nil {
			rn.note("membership change failed: %v", res.Err)
			time.Sleep(rn.el())
			continue
		}
		// k extra batches after the change committed: 1 leaves the staged commit index on the
		// configuration entry itself
		extra := pick(rn.rng, 1, 1, 1, 0, 2)
		for i := 0; i < extra; i++ {
			rn.ctr[12]++
			c.Apply(12, L, fmt.Sprintf("rcx.%d k0", rn.ctr[12]), 50*time.Millisecond)
		}
		rn.note("%s %s committed, %d more batch(es), everybody stops", op, tgt.name, extra)
		for _, nd := range c.Nodes {
			c.Crash(nd)
		}
		time.Sleep(rn.el() / 2)
		for _, nd := range c.Nodes {
			c.Start(nd)
		}
		N := rn.waitLeader(nil, 40)
		if N == nil {
			continue
		}
		time.Sleep(rn.el())
		if N = rn.waitLeader(nil, 40); N == nil {
			continue
		}
		rn.applyBurst(N, 6+rn.rng.Intn(6), "rcs")
		time.Sleep(rn.el())
		c.Snapshot(90, N)
		time.Sleep(rn.el())
		// a membership change on the restarted leader has to go through as well
		if rn.rng.Intn(2) == 0 {
			rn.bg(func() { c.Membership(91, N, pick(rn.rng, "addnonvoter", "remove"), tgt, 0, 100*time.Millisecond) })
			time.Sleep(2 * rn.el())
		}
		for _, nd := range c.Nodes {
			c.Crash(nd)
		}
		time.Sleep(rn.el() / 2)
		for _, nd := range c.Nodes {
			c.Start(nd)
		}
		time.Sleep(3 * rn.el())
		for _, nd := range c.Nodes {
			c.Reading(nd, "quiet")
		}
	}
}

func (rn *Runner) stableLeader() *Node {
	L := rn.waitLeader(nil, 30)
	if L == nil {
		return nil
	}
	time.Sleep(rn.el())
	return rn.waitLeader(nil, 30)
}

func (rn *Runner) othersOf(L *Node) []*Node {
	var out []*Node
	for _, nd := range rn.C.Nodes {
		if nd != L && nd.Cur() != nil {
			out = append(out, nd)
		}
	}
	rn.rng.Shuffle(len(out), func(i, j int) { out[i], out[j] = out[j], out[i] })
	return out
}

// scriptDupAE (C03, C06): the network delivers an AppendEntries request a second time, after the
// follower has stored (and acknowledged) later entries; nothing else follows because the leader
// dies. The follower must still know how long its log is: the other follower, which lacks the later
// (committed) entries, must not get its vote, and if the follower wins itself it must append behind
// what it holds.
func scriptDupAE(rn *Runner) {
	c := rn.C
	hb := time.Duration(rn.Sc.P.HeartbeatMs) * time.Millisecond
	for round := 0; round < 3; round++ {
		L := rn.stableLeader()
		if L == nil {
			return
		}
		o := rn.othersOf(L)
		if len(o) < 2 {
			return
		}
		G := o[0]
		d := hb * time.Duration(pick(rn.rng, 2, 3)) / 2
		rn.note("L=%s G=%s: AppendEntries repeated after %v", L.name, G.name, d)
		c.Net.SetKindDup("ae", d)
		rn.applyBurst(L, 2+rn.rng.Intn(4), "da") // burst A: everybody stores it
		time.Sleep(d / 3)
		rn.cutOff(G) // G keeps A and misses B
		time.Sleep(d / 6)
		rn.applyBurst(L, 2+rn.rng.Intn(4), "db") // burst B: committed without G
		time.Sleep(d/2 + 5*time.Millisecond)     // the copies of burst A's requests have arrived by now
		c.Crash(L)
		c.Net.SetKindDup("ae", 0)
		c.Net.Heal()
		time.Sleep(5 * rn.el())
		c.Start(L)
		time.Sleep(3 * rn.el())
	}
}

// scriptMonoFail (C04, C11): a deposed leader on a store that cannot hold gaps keeps an uncommitted
// suffix of its old term; the cluster moves on, snapshots and compacts; when the old leader is sent
// the snapshot its DeleteRange fails (the wholesale reset cannot be done). Whatever it then accepts
// from the new leader must not end up below the stale entries.
func scriptMonoFail(rn *Runner) {
	c := rn.C
	for round := 0; round < 2; round++ {
		L := rn.stableLeader()
		if L == nil {
			return
		}
		rn.applyBurst(L, 2+rn.rng.Intn(3), "ma")
		time.Sleep(rn.el() / 2)
		rn.cutOff(L)
		rn.applyBurst(L, 3+rn.rng.Intn(8), "mstale")
		N := rn.waitNewLeader(L, nil, 20*rn.Sc.P.ElectionMs)
		if N == nil {
			c.Net.Heal()
			continue
		}
		rn.applyBurst(N, 2+rn.rng.Intn(12), "mnew")
		time.Sleep(rn.el())
		c.Snapshot(90, N)
		time.Sleep(rn.el() / 2)
		rn.note("L=%s (stale suffix, deletes fail) N=%s", L.name, N.name)
		L.disk.FailAfter("del", 0)
		c.Net.Heal()
		time.Sleep(2 * rn.el())
		rn.applyBurst(N, 1+rn.rng.Intn(3), "mlate")
		time.Sleep(rn.el())
		L.disk.Disarm()
		if rn.rng.Intn(2) == 0 {
			c.Crash(L)
			time.Sleep(rn.el() / 2)
			c.Start(L)
		}
		time.Sleep(3 * rn.el())
	}
}

// scriptSnapTrunc (C11): a server snapshots while its log still carries a long uncommitted suffix;
// persisting is slow, and meanwhile a new leader replaces that suffix by a shorter one. The
// compaction that follows has to count TrailingLogs from the log as it is then.
func scriptSnapTrunc(rn *Runner) {
	c := rn.C
	for round := 0; round < 2; round++ {
		L := rn.stableLeader()
		if L == nil {
			return
		}
		rn.applyBurst(L, 6+rn.rng.Intn(6), "sa")
		time.Sleep(rn.el())
		rn.cutOff(L)
		rn.applyBurst(L, 20+rn.rng.Intn(30), "sstale")
		time.Sleep(rn.el() / 4)
		l := L
		rn.bg(func() { c.Snapshot(90, l) }) // Persist takes several election timeouts
		N := rn.waitNewLeader(L, nil, 20*rn.Sc.P.ElectionMs)
		if N == nil {
			c.Net.Heal()
			time.Sleep(8 * rn.el())
			continue
		}
		rn.applyBurst(N, 1+rn.rng.Intn(3), "snew")
		time.Sleep(rn.el() / 4)
		rn.note("L=%s is persisting a snapshot; N=%s replaces its suffix", L.name, N.name)
		c.Net.Heal()
		time.Sleep(time.Duration(rn.Sc.P.PersistDelayMs)*time.Millisecond + 3*rn.el())
	}
}

// scriptSnapLeader (C18): follower F is being sent a snapshot by leader L1 of term T; restoring it
// takes several election timeouts, and meanwhile the rest elects L2 in term T+1, whose heartbeat
// reaches F on the transport's fast path. When the install finally completes F is a follower of
// term T+1 - and must not name L1.
func scriptSnapLeader(rn *Runner) {
	c := rn.C
	hb := time.Duration(rn.Sc.P.HeartbeatMs) * time.Millisecond
	for round := 0; round < 2; round++ {
		L1 := rn.stableLeader()
		if L1 == nil {
			return
		}
		o := rn.othersOf(L1)
		if len(o) < 4 {
			return
		}
		F := o[0]
		rn.cutOff(F)
		rn.applyBurst(L1, 6+rn.rng.Intn(6), "la")
		time.Sleep(rn.el())
		c.Snapshot(90, L1)
		time.Sleep(rn.el() / 2)
		if c.Leader() != L1 {
			c.Net.Heal()
			continue
		}
		rn.note("L1=%s sends its snapshot to F=%s and loses the others", L1.name, F.name)
		c.Net.Heal()
		rn.cutGroups(map[*Node]bool{L1: true, F: true})
		rest := map[*Node]bool{}
		for _, nd := range o[1:] {
			rest[nd] = true
		}
		L2 := rn.waitNewLeader(L1, rest, 20*rn.Sc.P.ElectionMs)
		if L2 == nil {
			c.Net.Heal()
			time.Sleep(time.Duration(rn.Sc.P.RestoreDelayMs) * time.Millisecond)
			continue
		}
		// a short window in which L2's heartbeats reach F (and depose L1); then F hears nobody
		c.Net.Heal()
		time.Sleep(hb / 3)
		rn.cutOff(F)
		for i := 0; i < 2*rn.Sc.P.RestoreDelayMs/5+10; i++ {
			time.Sleep(5 * time.Millisecond)
			c.Sample(F)
		}
		c.Net.Heal()
		time.Sleep(3 * rn.el())
	}
}

// scriptSnapFallback (C10): the newest snapshot of a server is unreadable when it restarts (it is still
// listed; Open fails), so start-up falls back to the one before. Everything the server reports afterwards -
// last snapshot position, configuration (a membership change lies between the two snapshots), FSM content -
// has to fit the snapshot it really restored plus its log (TrailingLogs keeps the log).
func scriptSnapFallback(rn *Runner) {
	c := rn.C
	for round := 0; round < 2; round++ {
		L := rn.stableLeader()
		if L == nil {
			return
		}
		spare := c.Nodes[len(c.Nodes)-1]
		rn.applyBurst(L, 4+rn.rng.Intn(5), "fa")
		time.Sleep(rn.el())
		c.Snapshot(90, L)
		time.Sleep(rn.el() / 2)
		op := []string{"addnonvoter", "remove"}[round%2]
		c.Membership(91, L, op, spare, 0, 100*time.Millisecond)
		rn.applyBurst(L, 4+rn.rng.Intn(5), "fb")
		time.Sleep(rn.el())
		c.Snapshot(90, L)
		time.Sleep(rn.el() / 2)
		rn.applyBurst(L, 1+rn.rng.Intn(4), "fc")
		time.Sleep(rn.el())
		c.Crash(L)
		ok := L.disk.DamageNewestSnapshot()
		rn.note("%s restarts, newest snapshot damaged: %v", L.name, ok)
		time.Sleep(rn.el() / 2)
		c.Start(L)
		time.Sleep(4 * rn.el())
		for _, nd := range c.Nodes {
			c.Reading(nd, "quiet")
		}
		rn.applyBurst(L, 2, "fd")
		time.Sleep(2 * rn.el())
	}
}

// scriptRestoreFail (C02, C12): a lagging follower receives a snapshot, stores it, and then cannot read it
// back for the FSM (one failing Open): the install fails after the snapshot is on disk. Before the leader
// retries it dies; the next leader still holds the whole log and probes the follower entry by entry. The
// follower's FSM is where it was, so it must be fed every entry from there on.
func scriptRestoreFail(rn *Runner) {
	c := rn.C
	for round := 0; round < 2; round++ {
		L1 := rn.stableLeader()
		if L1 == nil {
			return
		}
		o := rn.othersOf(L1)
		if len(o) < 2 {
			return
		}
		F := o[0]
		rn.applyBurst(L1, 2+rn.rng.Intn(3), "ra")
		time.Sleep(rn.el() / 2)
		rn.cutOff(F)
		rn.applyBurst(L1, 6+rn.rng.Intn(6), "rb")
		time.Sleep(rn.el())
		c.Snapshot(90, L1) // only L1 compacts; the others keep their logs
		time.Sleep(rn.el() / 2)
		if c.Leader() != L1 {
			c.Net.Heal()
			continue
		}
		F.disk.FailNextOpens(1)
		rn.note("L1=%s F=%s: F cannot read the snapshot it is sent", L1.name, F.name)
		c.Net.Heal()
		for i := 0; i < 400 && F.disk.OpenFailsLeft() > 0; i++ {
			time.Sleep(rn.el() / 40)
		}
		if F.disk.OpenFailsLeft() > 0 {
			F.disk.FailNextOpens(0)
			rn.note("no snapshot was sent")
			continue
		}
		c.Crash(L1) // before it retries the install
		time.Sleep(5 * rn.el())
		rn.applyBurst(c.Leader(), 2, "rc")
		time.Sleep(2 * rn.el())
		c.Start(L1)
		time.Sleep(3 * rn.el())
	}
}

// scriptSnapVote (C03, C06): a voter whose whole log has been compacted into its snapshot (TrailingLogs 0)
// restarts: its last entry is the snapshot's. The only other server it can talk to missed the entries
// that were committed meanwhile and campaigns (no pre-vote): it must be refused, however the voter looks
// up its own last entry.
func scriptSnapVote(rn *Runner) {
	c := rn.C
	for round := 0; round < 2; round++ {
		A := rn.stableLeader()
		if A == nil {
			return
		}
		o := rn.othersOf(A)
		if len(o) < 2 {
			return
		}
		B, C := o[0], o[1]
		rn.applyBurst(A, 2+rn.rng.Intn(3), "va")
		time.Sleep(rn.el())
		rn.cutOff(C)
		rn.applyBurst(A, 4+rn.rng.Intn(8), "vb") // committed by A and B (and whoever else is there)
		time.Sleep(rn.el())
		c.Snapshot(90, B)
		time.Sleep(rn.el() / 2)
		rn.note("A=%s goes down, B=%s (log compacted into its snapshot) restarts, C=%s lacks the committed entries", A.name, B.name, C.name)
		c.Crash(B)
		for _, nd := range c.Nodes {
			if nd != B && nd != C {
				c.Crash(nd)
			}
		}
		c.Net.Heal()
		time.Sleep(rn.el() / 4)
		c.Start(B)
		time.Sleep(6 * rn.el()) // B and C alone: only B may win (if they are a majority at all)
		for _, nd := range c.Nodes {
			c.Start(nd)
		}
		time.Sleep(4 * rn.el())
	}
}

// scriptRestoreEdge (C20, C12): a deposed leader keeps k uncommitted entries; the next leader restores a
// user snapshot at a moment chosen so that the index the restore burns is exactly (or one off) the old
// leader's last index: its log then ends AT the snapshot it is sent, with an entry of an older term.
func scriptRestoreEdge(rn *Runner) {
	c := rn.C
	for round := 0; round < 3; round++ {
		A := rn.stableLeader()
		if A == nil {
			return
		}
		rn.applyBurst(A, 2, "ea")
		time.Sleep(rn.el())
		rn.cutOff(A)
		k := 3 + rn.rng.Intn(4)
		rn.applyBurst(A, k, "estale")
		time.Sleep(rn.el() / 10)
		aLast := A.disk.LastLogIndex()
		B := rn.waitNewLeader(A, nil, 20*rn.Sc.P.ElectionMs)
		if B == nil {
			c.Net.Heal()
			continue
		}
		time.Sleep(rn.el() / 2)
		// bring B to aLast-1+d (d = -1, 0, 0, +1): the restore burns B's last index + 1
		d := pick(rn.rng, -1, 0, 0, 1)
		for i := 0; i < 40; i++ {
			in := B.Cur()
			if in == nil || int(in.r.LastIndex()) >= int(aLast)-1+d {
				break
			}
			rn.ctr[12]++
			c.Apply(12, B, fmt.Sprintf("efill.%d k0", rn.ctr[12]), 50*time.Millisecond)
		}
		rn.restoreTag++
		tag := rn.restoreTag
		rn.note("A=%s ends at %d; B=%s restores with its last index at %d", A.name, aLast, B.name, B.disk.LastLogIndex())
		c.UserRestore(93, B, 0, tag, time.Second)
		rn.applyBurst(B, 2+rn.rng.Intn(3), "elate")
		time.Sleep(rn.el())
		c.Net.Heal()
		time.Sleep(5 * rn.el())
	}
}

// scriptDeposeAE (C17, C08): a leader whose requests still arrive but whose answers are lost keeps writes
// in flight that the followers have stored. One follower is told to campaign (a TimeoutNow, as a
// leadership transfer would send it), wins without the leader hearing of it, commits those very entries
// under its own term, and the first thing the old leader then receives may be an AppendEntries that
// carries entries and a commit index covering its in-flight writes: it is deposed and told "committed"
// in one step. Every one of its futures still has to be answered.
func scriptDeposeAE(rn *Runner) {
	c := rn.C
	for round := 0; round < 5; round++ {
		L := rn.stableLeader()
		if L == nil {
			return
		}
		o := rn.othersOf(L)
		if len(o) < 2 {
			return
		}
		rn.applyBurst(L, 1+rn.rng.Intn(3), "pa")
		time.Sleep(rn.el() / 2)
		if c.Leader() != L {
			continue
		}
		var pairs [][2]string
		for _, x := range o {
			pairs = append(pairs, [2]string{x.name, L.name}) // nothing comes back to L
		}
		c.Net.CutMany(pairs)
		l := L
		rn.applyBurst(L, 1+rn.rng.Intn(4), "pin")
		rn.bg(func() { c.Barrier(95, l, 50*time.Millisecond) })
		if rn.rng.Intn(2) == 0 {
			rn.bg(func() { c.Membership(91, l, "addnonvoter", c.Nodes[len(c.Nodes)-1], 0, 50*time.Millisecond) })
		}
		time.Sleep(time.Duration(1+rn.rng.Intn(3)) * time.Millisecond)
		var F *Node
		for _, x := range o {
			if c.IsVoterNow(L, x) {
				F = x
				break
			}
		}
		if F == nil {
			c.Net.Heal()
			continue
		}
		if in := F.Cur(); in != nil {
			rn.note("L=%s hears nothing; F=%s is told to campaign", L.name, F.name)
			rn.bg(func() {
				in.tr.Inject(&raft.TimeoutNowRequest{RPCHeader: raft.RPCHeader{ProtocolVersion: 3, ID: []byte(l.name), Addr: []byte(l.name)}}, nil)
			})
		}
		time.Sleep(time.Duration(2+rn.rng.Intn(8)) * time.Millisecond)
		c.Net.Heal()
		time.Sleep(4 * rn.el())
	}
}
