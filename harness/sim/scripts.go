package sim

import (
	"fmt"
	"time"

	"github.com/hashicorp/raft"
)

// scripts are programmatic nemeses: they react to the state of the cluster
// (who is leader) instead of following a fixed timetable.
var scripts = map[string]func(rn *Runner){
	"fig8x":    scriptFig8x,
	"cfgtrunc": scriptCfgTrunc,
	"snapcfg":  scriptSnapCfg,
}

func (rn *Runner) el() time.Duration {
	return time.Duration(rn.Sc.P.ElectionMs) * time.Millisecond
}

// waitLeader waits (virtual time) until some running server among `among`
// (nil = any) reports Leader, at most n election timeouts.
func (rn *Runner) waitLeader(among map[*Node]bool, n int) *Node {
	for i := 0; i < n*20; i++ {
		for _, nd := range rn.C.Leaders() {
			if among == nil || among[nd] {
				return nd
			}
		}
		time.Sleep(rn.el() / 20)
	}
	return nil
}

func (rn *Runner) note(f string, a ...interface{}) {
	rn.C.W.Log(Ev{K: "m.script", X: fmt.Sprintf(f, a...)})
}

func (rn *Runner) cutGroups(a map[*Node]bool) {
	c := rn.C
	var pairs [][2]string
	for _, x := range c.Nodes {
		for _, y := range c.Nodes {
			if x != y && a[x] != a[y] {
				pairs = append(pairs, [2]string{x.name, y.name})
			}
		}
	}
	c.Net.CutMany(pairs)
}

func (rn *Runner) applyBurst(nd *Node, n int, tag string) {
	for i := 0; i < n; i++ {
		rn.ctr[12]++
		payload := fmt.Sprintf("%s.%d k0", tag, rn.ctr[12])
		rn.bg(func() { rn.C.Apply(12, nd, payload, 50*time.Millisecond) })
	}
}

// scriptFig8x: see genFig8x.
func scriptFig8x(rn *Runner) {
	c := rn.C
	A := rn.waitLeader(nil, 20)
	if A == nil {
		rn.note("no first leader")
		return
	}
	time.Sleep(2 * rn.el())
	A = rn.waitLeader(nil, 20)
	if A == nil {
		return
	}
	// (a) A and one follower B are cut off together; A takes writes that only B can get
	var B *Node
	for _, nd := range c.Nodes {
		if nd != A {
			B = nd
			break
		}
	}
	rn.note("A=%s B=%s", A.name, B.name)
	rn.cutGroups(map[*Node]bool{A: true, B: true})
	rn.applyBurst(A, 1+rn.rng.Intn(3), "a")
	time.Sleep(rn.el() / 2)
	c.Crash(A)
	c.Crash(B)
	// (b) whoever wins among the rest crashes right after storing its first entry (the no-op),
	// before anything is replicated
	rest := map[*Node]bool{}
	for _, nd := range c.Nodes {
		if nd != A && nd != B {
			rest[nd] = true
		}
	}
	for nd := range rest {
		nd.disk.Arm(Fault{Kind: "store", Nth: 1, When: "after"})
	}
	var E *Node
	for i := 0; i < 400 && E == nil; i++ {
		time.Sleep(rn.el() / 10)
		for nd := range rest {
			if nd.Cur() == nil {
				E = nd
			}
		}
	}
	for nd := range rest {
		nd.disk.Disarm()
	}
	if E == nil {
		rn.note("nobody crashed on its first store")
		return
	}
	rn.note("E=%s crashed after storing its no-op", E.name)
	// (c) A and B come back; the two others can store one more batch and then fail their stores,
	// so the old-term entries reach a majority but the new leader's no-op does not
	c.Net.Heal()
	last := A.disk.LastLogIndex()
	if l := B.disk.LastLogIndex(); l > last {
		last = l
	}
	for nd := range rest {
		if nd != E {
			// exactly the old-term backlog can be stored (MaxAppendEntries is 1), nothing after it
			need := int(last) - int(nd.disk.LastLogIndex())
			if need < 0 {
				need = 0
			}
			nd.disk.FailAfter("store", need)
		}
	}
	c.Start(A)
	c.Start(B)
	withE := rn.rng.Intn(2) == 0
	if withE {
		// variant: E is back already and is sent the old-term entries over its higher-term no-op
		c.Start(E)
	}
	L := rn.waitLeader(map[*Node]bool{A: true, B: true}, 40)
	if L == nil {
		rn.note("neither A nor B won")
	} else {
		rn.note("L=%s leads term %d", L.name, L.Cur().r.CurrentTerm())
	}
	time.Sleep(3 * rn.el())
	// (d) A and B go away, E returns: its last term is higher than what the others hold
	c.Crash(A)
	c.Crash(B)
	for nd := range rest {
		nd.disk.Disarm()
	}
	if withE {
		c.Crash(E)
	}
	c.Start(E)
	if w := rn.waitLeader(rest, 40); w != nil {
		rn.note("W=%s leads term %d", w.name, w.Cur().r.CurrentTerm())
		rn.applyBurst(w, 2, "w")
	}
	time.Sleep(3 * rn.el())
	c.Start(A)
	c.Start(B)
	time.Sleep(2 * rn.el())
}

var _ = raft.Leader

// scriptCfgTrunc (C07): an uncommitted configuration entry reaches one
// follower only, its leader is deposed, and the new leader's first entry lands
// on the very same index: the follower has to truncate exactly its latest
// configuration entry and fall back to the committed configuration.
func scriptCfgTrunc(rn *Runner) {
	c := rn.C
	L := rn.waitLeader(nil, 20)
	if L == nil {
		return
	}
	time.Sleep(2 * rn.el())
	if L = rn.waitLeader(nil, 20); L == nil {
		return
	}
	rn.applyBurst(L, rn.rng.Intn(4), "p")
	time.Sleep(rn.el())
	// F: a server other than the leader (the non-voter if there is one)
	var F *Node
	for i := len(c.Nodes) - 1; i >= 0; i-- {
		if c.Nodes[i] != L && c.Nodes[i].Cur() != nil {
			F = c.Nodes[i]
			break
		}
	}
	if F == nil {
		return
	}
	rn.note("L=%s F=%s", L.name, F.name)
	rn.cutGroups(map[*Node]bool{L: true, F: true})
	op := "addvoter"
	tgt := F
	if rn.rng.Intn(3) == 0 {
		op = pick(rn.rng, "demote", "remove", "addnonvoter")
		for _, nd := range c.Nodes {
			if nd != L && nd != F {
				tgt = nd
			}
		}
	}
	rn.bg(func() { c.Membership(91, L, op, tgt, 0, 50*time.Millisecond) })
	// the rest elects a leader whose no-op takes the same index
	rest := map[*Node]bool{}
	for _, nd := range c.Nodes {
		if nd != L && nd != F {
			rest[nd] = true
		}
	}
	W := rn.waitLeader(rest, 40)
	if W != nil {
		rn.note("W=%s", W.name)
	}
	time.Sleep(rn.el())
	c.Net.Heal()
	time.Sleep(4 * rn.el())
	for _, nd := range c.Nodes {
		c.Reading(nd, "quiet")
	}
	if rn.rng.Intn(2) == 0 {
		// does F, left alone, start campaigning although the committed configuration gives it no vote?
		rn.cutGroups(map[*Node]bool{F: true})
		time.Sleep(6 * rn.el())
		c.Net.Heal()
		time.Sleep(2 * rn.el())
	}
}

// scriptSnapCfg (C10, C11): snapshots are requested while membership changes
// commit on a busy FSM; then the server crashes and restarts from that snapshot.
func scriptSnapCfg(rn *Runner) {
	c := rn.C
	for round := 0; round < 4; round++ {
		L := rn.waitLeader(nil, 30)
		if L == nil {
			return
		}
		time.Sleep(rn.el())
		if L = rn.waitLeader(nil, 30); L == nil {
			return
		}
		// a spare / non-voter to add or remove
		tgt := c.Nodes[len(c.Nodes)-1]
		if tgt == L {
			tgt = c.Nodes[0]
		}
		op := []string{"addnonvoter", "remove", "addvoter", "demote"}[round%4]
		rn.applyBurst(L, 4+rn.rng.Intn(6), "s")
		time.Sleep(time.Duration(rn.rng.Intn(20)) * time.Millisecond)
		rn.bg(func() { c.Snapshot(90, L) })
		time.Sleep(time.Duration(rn.rng.Intn(5)) * time.Millisecond)
		rn.bg(func() { c.Membership(91, L, op, tgt, 0, 100*time.Millisecond) })
		time.Sleep(3 * rn.el())
		if rn.rng.Intn(3) != 0 {
			c.Crash(L)
			time.Sleep(rn.el() / 2)
			c.Start(L)
		}
		time.Sleep(2 * rn.el())
	}
}
