package sim

import (
	"encoding/binary"
	"fmt"
	"hash/fnv"
	"io"
	"sort"
	"strconv"
	"strings"
	"sync"
	"time"

	"github.com/hashicorp/raft"
)

// FSMState is what the recording FSM holds; it is a pure function of the
// sequence of commands applied (and of the last restore).
type FSMState struct {
	Cnt  uint64
	Last uint64
	Hash uint64
	KV   map[string]string
}

// Mix is the hash chain step: identity of an applied command is (index, term, data).
func Mix(h, idx, term uint64, data []byte) uint64 {
	f := fnv.New64a()
	var b [24]byte
	binary.LittleEndian.PutUint64(b[0:], h)
	binary.LittleEndian.PutUint64(b[8:], idx)
	binary.LittleEndian.PutUint64(b[16:], term)
	f.Write(b[:])
	f.Write(data)
	return f.Sum64()
}

// CmdKey extracts the key of a command payload "<id> <key>"; "" if none.
func CmdKey(data string) (id, key string) {
	if i := strings.IndexByte(data, ' '); i >= 0 {
		return data[:i], data[i+1:]
	}
	return data, ""
}

// Step applies one command to a state (used by the FSM and by the oracle's
// canonical fold, so both sides share one definition of "applying").
func (s *FSMState) Step(idx, term uint64, data string) (prev string) {
	s.Cnt++
	s.Last = idx
	s.Hash = Mix(s.Hash, idx, term, []byte(data))
	id, key := CmdKey(data)
	if key != "" {
		if s.KV == nil {
			s.KV = map[string]string{}
		}
		prev = s.KV[key]
		s.KV[key] = id
	}
	return prev
}

// Encode renders the state canonically (snapshot content).
func (s *FSMState) Encode() string {
	keys := make([]string, 0, len(s.KV))
	for k := range s.KV {
		keys = append(keys, k)
	}
	sort.Strings(keys)
	var sb strings.Builder
	fmt.Fprintf(&sb, "%d %d %x", s.Cnt, s.Last, s.Hash)
	for _, k := range keys {
		sb.WriteByte(' ')
		sb.WriteString(k)
		sb.WriteByte('=')
		sb.WriteString(s.KV[k])
	}
	return sb.String()
}

// DecodeState parses Encode's output.
func DecodeState(str string) (FSMState, error) {
	var s FSMState
	f := strings.Fields(str)
	if len(f) < 3 {
		return s, fmt.Errorf("bad state %q", str)
	}
	var err error
	if s.Cnt, err = strconv.ParseUint(f[0], 10, 64); err != nil {
		return s, err
	}
	if s.Last, err = strconv.ParseUint(f[1], 10, 64); err != nil {
		return s, err
	}
	if s.Hash, err = strconv.ParseUint(f[2], 16, 64); err != nil {
		return s, err
	}
	s.KV = map[string]string{}
	for _, kv := range f[3:] {
		i := strings.IndexByte(kv, '=')
		if i < 0 {
			return s, fmt.Errorf("bad kv %q", kv)
		}
		s.KV[kv[:i]] = kv[i+1:]
	}
	return s, nil
}

func (s *FSMState) Clone() FSMState {
	c := *s
	c.KV = make(map[string]string, len(s.KV))
	for k, v := range s.KV {
		c.KV[k] = v
	}
	return c
}

// ApplyResp is what Apply returns to raft (and raft to the client).
type ApplyResp struct {
	Index uint64
	ID    string
	Prev  string
}

func (a ApplyResp) String() string { return fmt.Sprintf("%d/%s/%s", a.Index, a.ID, a.Prev) }

// RecFSM is the recording state machine.
type RecFSM struct {
	d  *Disk
	ep int
	mu sync.Mutex
	st FSMState
	// seeded delays
	ApplyDelay, PersistDelay, RestoreDelay time.Duration
	DelayEvery                             uint64
}

func (f *RecFSM) log(e Ev) { f.d.LogIfLive(f.ep, e) }

func (f *RecFSM) applyOne(l *raft.Log) interface{} {
	f.mu.Lock()
	prev := f.st.Step(l.Index, l.Term, string(l.Data))
	h, cnt := f.st.Hash, f.st.Cnt
	f.mu.Unlock()
	id, _ := CmdKey(string(l.Data))
	f.log(Ev{K: "f.apply", A: l.Index, B: l.Term, C: h, D: uint64(l.Type), X: string(l.Data), Y: prev, E: cnt})
	if f.ApplyDelay > 0 && f.DelayEvery > 0 && l.Index%f.DelayEvery == 0 {
		time.Sleep(f.ApplyDelay)
	}
	return ApplyResp{Index: l.Index, ID: id, Prev: prev}
}

func (f *RecFSM) Apply(l *raft.Log) interface{} { return f.applyOne(l) }

func (f *RecFSM) storeCfg(index uint64, c raft.Configuration) {
	f.log(Ev{K: "f.cfg", A: index, X: CfgString(c)})
}

func (f *RecFSM) applyBatch(ls []*raft.Log) []interface{} {
	out := make([]interface{}, len(ls))
	f.log(Ev{K: "f.batch", A: uint64(len(ls))})
	for i, l := range ls {
		switch l.Type {
		case raft.LogCommand:
			out[i] = f.applyOne(l)
		case raft.LogConfiguration:
			f.log(Ev{K: "f.cfg", A: l.Index, X: safeCfg(l.Data), B: 1})
			out[i] = nil
		default:
			f.log(Ev{K: "f.badtype", A: l.Index, D: uint64(l.Type)})
		}
	}
	return out
}

type fsnap struct {
	f    *RecFSM
	data string
	last uint64
}

func (f *RecFSM) Snapshot() (raft.FSMSnapshot, error) {
	f.mu.Lock()
	s := &fsnap{f: f, data: f.st.Encode(), last: f.st.Last}
	h := f.st.Hash
	f.mu.Unlock()
	f.log(Ev{K: "f.snap", A: s.last, C: h})
	if f.PersistDelay > 0 {
		// a state machine that takes a while to hand out its snapshot (the state is captured above)
		time.Sleep(f.PersistDelay / 2)
	}
	return s, nil
}

func (s *fsnap) Persist(sink raft.SnapshotSink) error {
	if s.f.PersistDelay > 0 {
		time.Sleep(s.f.PersistDelay)
	}
	b := []byte(s.data)
	half := len(b) / 2
	if _, err := sink.Write(b[:half]); err != nil {
		sink.Cancel()
		return err
	}
	if _, err := sink.Write(b[half:]); err != nil {
		sink.Cancel()
		return err
	}
	return sink.Close()
}

func (s *fsnap) Release() {}

func (f *RecFSM) Restore(rc io.ReadCloser) error {
	defer rc.Close()
	b, err := io.ReadAll(rc)
	if err != nil {
		return err
	}
	if f.RestoreDelay > 0 {
		time.Sleep(f.RestoreDelay)
	}
	st, err := DecodeState(string(b))
	if err != nil {
		f.log(Ev{K: "f.restore.bad", X: string(b)})
		return err
	}
	f.mu.Lock()
	f.st = st
	f.mu.Unlock()
	f.log(Ev{K: "f.restore", A: st.Last, B: st.Cnt, C: st.Hash, X: string(b)})
	return nil
}

// State returns a copy of the current FSM state.
func (f *RecFSM) State() FSMState {
	f.mu.Lock()
	defer f.mu.Unlock()
	return f.st.Clone()
}

// Variants: raft discovers BatchingFSM / ConfigurationStore by type assertion.
type fsmPlain struct{ *RecFSM }
type fsmBatch struct{ *RecFSM }
type fsmCfg struct{ *RecFSM }
type fsmBatchCfg struct{ *RecFSM }

func (f fsmBatch) ApplyBatch(ls []*raft.Log) []interface{}    { return f.applyBatch(ls) }
func (f fsmBatchCfg) ApplyBatch(ls []*raft.Log) []interface{} { return f.applyBatch(ls) }
func (f fsmCfg) StoreConfiguration(i uint64, c raft.Configuration) {
	f.storeCfg(i, c)
}
func (f fsmBatchCfg) StoreConfiguration(i uint64, c raft.Configuration) {
	f.storeCfg(i, c)
}

// FSMKind: 0 plain, 1 batching, 2 config-store, 3 batching+config-store.
func wrapFSM(f *RecFSM, kind int) raft.FSM {
	switch kind {
	case 1:
		return fsmBatch{f}
	case 2:
		return fsmCfg{f}
	case 3:
		return fsmBatchCfg{f}
	}
	return fsmPlain{f}
}

// NewRecFSM builds a recording FSM for incarnation ep of d.
func NewRecFSM(d *Disk, ep int) *RecFSM { return &RecFSM{d: d, ep: ep} }

// WrapFSM returns the raft.FSM view of f for the given variant (see wrapFSM).
func WrapFSM(f *RecFSM, kind int) raft.FSM { return wrapFSM(f, kind) }

// HandleEpoch returns the epoch a handle was opened in.
func (h *Handle) Epoch() int { return h.ep }
