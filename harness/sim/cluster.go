package sim

import (
	"fmt"
	"io"
	"math/rand"
	"strconv"
	"strings"
	"sync"
	"sync/atomic"
	"time"

	"github.com/hashicorp/go-hclog"
	"github.com/hashicorp/raft"
)

// Params is the static configuration of one execution's cluster.
type Params struct {
	Voters    int `json:"voters"`
	NonVoters int `json:"nonvoters,omitempty"`
	Spares    int `json:"spares,omitempty"` // servers started empty, outside the initial configuration

	HeartbeatMs int `json:"hb_ms"`
	ElectionMs  int `json:"el_ms"`
	LeaseMs     int `json:"lease_ms"`
	CommitMs    int `json:"commit_ms"`

	MaxAppend     int    `json:"max_append"`
	Trailing      uint64 `json:"trailing"`
	SnapThreshold uint64 `json:"snap_threshold"`
	SnapIntervalS int    `json:"snap_interval_ms"`

	BatchApply       bool   `json:"batch_apply,omitempty"`
	ShutdownOnRemove bool   `json:"shutdown_on_remove,omitempty"`
	PreVoteOff       []bool `json:"prevote_off,omitempty"`
	Flavor           Flavor `json:"flavor"`
	RestoreCommitted bool   `json:"restore_committed,omitempty"`
	LogCache         int    `json:"log_cache,omitempty"`
	FSMKind          int    `json:"fsm_kind,omitempty"`
	Protocol         int    `json:"protocol,omitempty"` // 0 = the default (3); 2 = protocol version 2 on every server
	Pipeline         bool   `json:"pipeline,omitempty"`
	FastPath         bool   `json:"fast_path,omitempty"`
	NotifyBuf        int    `json:"notify_buf,omitempty"`
	NotifyDelayMs    int    `json:"notify_delay_ms,omitempty"`
	NotifyLazy       bool   `json:"notify_lazy,omitempty"` // the consumer is busy *before* each receive as well
	ApplyDelayMs     int    `json:"apply_delay_ms,omitempty"`
	PersistDelayMs   int    `json:"persist_delay_ms,omitempty"`
	RestoreDelayMs   int    `json:"restore_delay_ms,omitempty"`
	StoreDelayMs     int    `json:"store_delay_ms,omitempty"`  // every StoreLogs takes this long (slow disk)
	StableDelayMs    int    `json:"stable_delay_ms,omitempty"` // every stable-store write (term, vote) takes this long
	DelayEvery       uint64 `json:"delay_every,omitempty"`
}

func (p Params) N() int { return p.Voters + p.NonVoters + p.Spares }

// Inst is one incarnation of a server.
type Inst struct {
	n       *Node
	ep      int
	r       *raft.Raft
	tr      *Trans
	h       *Handle
	fsm     *RecFSM
	notify  chan bool
	stopC   chan struct{}
	wg      sync.WaitGroup
	shut    atomic.Bool // Shutdown() was called deliberately (clean shutdown)
	retired atomic.Bool // the incarnation crashed and is being torn down in the background
}

// Node is one server identity.
type Node struct {
	c    *Cluster
	idx  int
	name string
	disk *Disk

	mu       sync.Mutex
	inst     *Inst
	down     bool // crashed or shut down, not restarted yet
	starting bool
	stopping bool // a clean Shutdown() of the last incarnation is still in progress
	removed  bool // scenario decided this server stays down
}

func (n *Node) Name() string { return n.name }

// Cur returns the running incarnation, or nil.
func (n *Node) Cur() *Inst {
	n.mu.Lock()
	defer n.mu.Unlock()
	if n.down {
		return nil
	}
	return n.inst
}

// Cluster owns everything of one execution.
type Cluster struct {
	W     *World
	Net   *Net
	P     Params
	Nodes []*Node
	seed  int64

	insts    sync.Map // *raft.Raft -> *Inst
	startMap sync.Map // server id -> *Inst being / last started

	zmu     sync.Mutex
	zombies []*Inst
	callID  atomic.Uint64

	fatalMu sync.Mutex
	Fatal   []string // harness-detected fatal conditions (e.g. NewRaft blocked)

	AutoRestart time.Duration // >0: restart a fault-crashed server after this long
	bg          sync.WaitGroup
}

// CallWatchdog is the virtual-time bound after which an unresolved client
// call is recorded as stranded (C17).
const CallWatchdog = 60 * time.Second

// NewRaftWatchdog bounds NewRaft in virtual time (C10).
const NewRaftWatchdog = 60 * time.Second

var hookOnce sync.Once
var theCluster atomic.Pointer[Cluster]

func installHook() {
	hookOnce.Do(func() {
		raft.VerifHook = func(point string, r *raft.Raft, a, b, c, d uint64) {
			cl := theCluster.Load()
			if cl == nil {
				return
			}
			var in *Inst
			if v, ok := cl.insts.Load(r); ok {
				in = v.(*Inst)
			} else if v, ok := cl.startMap.Load(string(raft.VerifLocalID(r))); ok {
				in = v.(*Inst)
			} else {
				return
			}
			in.n.disk.LogIfLive(in.ep, Ev{K: "h." + point, A: a, B: b, C: c, D: d})
		}
	})
}

func NewCluster(w *World, seed int64, p Params) *Cluster {
	installHook()
	c := &Cluster{W: w, Net: NewNet(w, seed^0x6e6574), P: p, seed: seed}
	for i := 0; i < p.N(); i++ {
		name := fmt.Sprintf("s%d", i)
		nd := &Node{c: c, idx: i, name: name, disk: NewDisk(w, name, p.Flavor)}
		nd.disk.StoreDelay = time.Duration(p.StoreDelayMs) * time.Millisecond
		nd.disk.StableDelay = time.Duration(p.StableDelayMs) * time.Millisecond
		nd.disk.onCrash = func(reason string) { c.afterCrash(nd) }
		nd.down = true
		c.Nodes = append(c.Nodes, nd)
	}
	theCluster.Store(c)
	return c
}

func (c *Cluster) InitialConfiguration() raft.Configuration {
	var cfg raft.Configuration
	for i := 0; i < c.P.Voters+c.P.NonVoters; i++ {
		s := raft.Server{ID: raft.ServerID(c.Nodes[i].name), Address: raft.ServerAddress(c.Nodes[i].name), Suffrage: raft.Voter}
		if i >= c.P.Voters {
			s.Suffrage = raft.Nonvoter
		}
		cfg.Servers = append(cfg.Servers, s)
	}
	return cfg
}

func (c *Cluster) conf(nd *Node) *raft.Config {
	p := c.P
	cf := raft.DefaultConfig()
	cf.LocalID = raft.ServerID(nd.name)
	cf.HeartbeatTimeout = time.Duration(p.HeartbeatMs) * time.Millisecond
	cf.ElectionTimeout = time.Duration(p.ElectionMs) * time.Millisecond
	cf.LeaderLeaseTimeout = time.Duration(p.LeaseMs) * time.Millisecond
	cf.CommitTimeout = time.Duration(p.CommitMs) * time.Millisecond
	cf.SnapshotInterval = time.Duration(p.SnapIntervalS) * time.Millisecond
	cf.SnapshotThreshold = p.SnapThreshold
	cf.TrailingLogs = p.Trailing
	cf.MaxAppendEntries = p.MaxAppend
	cf.BatchApplyCh = p.BatchApply
	cf.ShutdownOnRemove = p.ShutdownOnRemove
	cf.RestoreCommittedLogs = p.RestoreCommitted
	if p.Protocol == 2 {
		// still supported: separate IDs (equal to the addresses here), LogConfiguration entries that are not handed
		// to the FSM, no AddNonvoter / DemoteVoter
		cf.ProtocolVersion = 2
	}
	if nd.idx < len(p.PreVoteOff) {
		cf.PreVoteDisabled = p.PreVoteOff[nd.idx]
	}
	cf.Logger = hclog.New(&hclog.LoggerOptions{Output: io.Discard, Level: hclog.Off})
	return cf
}

// Bootstrap writes the initial configuration to the disks of the initial
// members and starts every server.
func (c *Cluster) Bootstrap() {
	cfg := c.InitialConfiguration()
	for i, nd := range c.Nodes {
		if i < c.P.Voters+c.P.NonVoters {
			h := nd.disk.Open()
			tr := c.Net.NewTrans(nd.name, nd.disk, h.ep, false, false)
			if err := raft.BootstrapCluster(c.conf(nd), h, h, h, tr, cfg); err != nil {
				panic(err)
			}
		}
	}
	for _, nd := range c.Nodes {
		c.Start(nd)
	}
}

// OnFatal, when set, is called when the harness detects a condition after
// which the execution cannot continue (e.g. NewRaft blocked for ever).
var OnFatal func(c *Cluster, msg string)

func (c *Cluster) fatal(msg string) {
	c.fatalMu.Lock()
	c.Fatal = append(c.Fatal, msg)
	c.fatalMu.Unlock()
	c.W.Log(Ev{K: "Lfatal", X: msg})
	if OnFatal != nil {
		OnFatal(c, msg)
	}
}

// FaultsTaken lists the crash / error points this server's disk actually took.
func (n *Node) FaultsTaken() []string {
	n.disk.mu.Lock()
	defer n.disk.mu.Unlock()
	return append([]string(nil), n.disk.Taken...)
}

// Start brings up a new incarnation of nd on its current durable image.
func (c *Cluster) Start(nd *Node) bool {
	nd.mu.Lock()
	if !nd.down || nd.starting || nd.removed || nd.stopping {
		nd.mu.Unlock()
		return false
	}
	nd.starting = true
	nd.mu.Unlock()
	defer func() { nd.mu.Lock(); nd.starting = false; nd.mu.Unlock() }()

	h := nd.disk.Open()
	ep := h.ep
	p := c.P
	tr := c.Net.NewTrans(nd.name, nd.disk, ep, p.FastPath, p.Pipeline)
	fsm := &RecFSM{d: nd.disk, ep: ep,
		ApplyDelay:   time.Duration(p.ApplyDelayMs) * time.Millisecond,
		PersistDelay: time.Duration(p.PersistDelayMs) * time.Millisecond,
		RestoreDelay: time.Duration(p.RestoreDelayMs) * time.Millisecond,
		DelayEvery:   p.DelayEvery}
	cf := c.conf(nd)
	in := &Inst{n: nd, ep: ep, tr: tr, h: h, fsm: fsm, notify: make(chan bool, p.NotifyBuf), stopC: make(chan struct{})}
	cf.NotifyCh = in.notify
	c.startMap.Store(nd.name, in)
	var logs raft.LogStore = h
	if p.LogCache > 0 && !p.RestoreCommitted {
		logs, _ = raft.NewLogCache(p.LogCache, h)
	}
	if !nd.disk.LogIfLive(ep, Ev{K: "Lstart", X: p.Flavor.String(), A: b2u(p.RestoreCommitted)}) {
		return false
	}
	type res struct {
		r   *raft.Raft
		err error
	}
	done := make(chan res, 1)
	go func() {
		r, err := raft.NewRaft(cf, wrapFSM(fsm, p.FSMKind), logs, h, h, tr)
		done <- res{r, err}
	}()
	var rr res
	select {
	case rr = <-done:
	case <-time.After(NewRaftWatchdog):
		nd.disk.LogIfLive(ep, Ev{K: "Lnewraft.blocked"})
		c.fatal("NewRaft blocked on " + nd.name)
		return false
	}
	if rr.err != nil {
		nd.disk.LogIfLive(ep, Ev{K: "Lnewraft.err", X: rr.err.Error()})
		c.W.Log(Ev{K: "Lnote", S: nd.name, X: "NewRaft error: " + rr.err.Error()})
		return false
	}
	in.r = rr.r
	c.insts.Store(rr.r, in)
	cfgNow := rr.r.GetConfiguration().Configuration()
	st := rr.r.Stats()
	u := func(k string) uint64 { v, _ := strconv.ParseUint(st[k], 10, 64); return v }
	// E/F: the snapshot position the new incarnation works from; Y: the last log entry it knows
	nd.disk.LogIfLive(ep, Ev{K: "Lstarted", A: rr.r.CurrentTerm(), B: rr.r.LastIndex(), C: rr.r.CommitIndex(), D: rr.r.AppliedIndex(), X: CfgString(cfgNow),
		E: u("last_snapshot_index"), F: u("last_snapshot_term"), Y: st["last_log_index"] + "/" + st["last_log_term"]})

	disk := nd.disk
	rr.r.RegisterObserver(raft.NewObserver(nil, false, func(o *raft.Observation) bool {
		switch v := o.Data.(type) {
		case raft.RaftState:
			disk.LogIfLive(ep, Ev{K: "o.state", A: uint64(v), B: o.Raft.CurrentTerm()})
		case raft.LeaderObservation:
			disk.LogIfLive(ep, Ev{K: "o.leader", X: string(v.LeaderID), B: o.Raft.CurrentTerm()})
		}
		return false
	}))

	// notification consumers
	delay := time.Duration(p.NotifyDelayMs) * time.Millisecond
	rng := rand.New(rand.NewSource(c.seed ^ int64(ep)<<8 ^ int64(nd.idx)))
	in.wg.Add(2)
	go func() {
		defer in.wg.Done()
		for {
			if p.NotifyLazy && delay > 0 {
				// a consumer that looks at the channel only now and then
				select {
				case <-time.After(delay/2 + time.Duration(rng.Int63n(int64(delay)/2+1))):
					select {
					case v := <-in.notify:
						disk.LogIfLive(ep, Ev{K: "n.notify", A: b2u(v)})
					default:
					}
					continue
				case <-in.stopC:
				}
			}
			select {
			case v := <-in.notify:
				disk.LogIfLive(ep, Ev{K: "n.notify", A: b2u(v)})
				if delay > 0 {
					time.Sleep(time.Duration(rng.Int63n(int64(delay) + 1)))
				}
			case <-in.stopC:
				for {
					select {
					case v := <-in.notify:
						disk.LogIfLive(ep, Ev{K: "n.notify", A: b2u(v), B: 1})
					default:
						return
					}
				}
			}
		}
	}()
	lch := rr.r.LeaderCh()
	rng2 := rand.New(rand.NewSource(c.seed ^ int64(ep)<<9 ^ int64(nd.idx) ^ 77))
	go func() {
		defer in.wg.Done()
		for {
			select {
			case v := <-lch:
				disk.LogIfLive(ep, Ev{K: "n.lch", A: b2u(v)})
				if delay > 0 {
					time.Sleep(time.Duration(rng2.Int63n(int64(delay)*2 + 1)))
				}
			case <-in.stopC:
				select {
				case v := <-lch:
					disk.LogIfLive(ep, Ev{K: "n.lch", A: b2u(v), B: 1})
				default:
				}
				return
			}
		}
	}()

	nd.mu.Lock()
	if nd.disk.Epoch() != ep {
		// crashed while starting: this incarnation is already a zombie
		nd.mu.Unlock()
		c.retire(in)
		return false
	}
	nd.inst = in
	nd.down = false
	nd.mu.Unlock()
	return true
}

// retire shuts an incarnation down in the background and stops its consumers
// once every raft goroutine has exited.
func (c *Cluster) retire(in *Inst) {
	if in == nil || in.r == nil || !in.retired.CompareAndSwap(false, true) {
		return
	}
	c.zmu.Lock()
	c.zombies = append(c.zombies, in)
	c.zmu.Unlock()
	c.bg.Add(1)
	go func() {
		defer c.bg.Done()
		in.r.Shutdown().Error()
		close(in.stopC)
		in.wg.Wait()
	}()
}

// afterCrash is called after nd's disk epoch has been bumped.
func (c *Cluster) afterCrash(nd *Node) {
	nd.mu.Lock()
	in := nd.inst
	already := nd.down
	nd.down = true
	nd.inst = nil
	nd.mu.Unlock()
	if !already && in != nil {
		c.retire(in)
	}
	if c.AutoRestart > 0 {
		c.bg.Add(1)
		go func() {
			defer c.bg.Done()
			time.Sleep(c.AutoRestart)
			c.Start(nd)
		}()
	}
}

// Crash crashes nd between two store operations, now.
func (c *Cluster) Crash(nd *Node) bool {
	nd.mu.Lock()
	if nd.down {
		nd.mu.Unlock()
		return false
	}
	nd.mu.Unlock()
	nd.disk.Crash("now")
	c.afterCrash(nd)
	return true
}

// ShutdownNode performs a clean Shutdown() of the running incarnation (the
// durable image stays; the server can be restarted).
// ShutdownWatchdog: virtual time after which Shutdown().Error() counts as hung.
const ShutdownWatchdog = 60 * time.Second

func (c *Cluster) ShutdownNode(nd *Node) *Inst {
	nd.mu.Lock()
	in := nd.inst
	if nd.down || in == nil {
		nd.mu.Unlock()
		return nil
	}
	nd.down = true
	nd.stopping = true
	nd.inst = nil
	nd.mu.Unlock()
	defer func() { nd.mu.Lock(); nd.stopping = false; nd.mu.Unlock() }()
	nd.disk.LogIfLive(in.ep, Ev{K: "Lshutdown.begin"})
	in.shut.Store(true)
	sd := make(chan struct{})
	go func() { in.r.Shutdown().Error(); close(sd) }()
	select {
	case <-sd:
	case <-time.After(ShutdownWatchdog):
		// C17: Shutdown never strands its caller. The incarnation is written off (its goroutines
		// stay behind) so that the execution can go on and end.
		nd.disk.LogIfLive(in.ep, Ev{K: "Lshutdown.hang"})
		nd.disk.Crash("shutdown-hang")
		c.zmu.Lock()
		c.zombies = append(c.zombies, in)
		c.zmu.Unlock()
		return in
	}
	// a cleanly shut down incarnation no longer writes; bump the epoch so that
	// late events of it are not attributed to a live server
	nd.disk.LogIfLive(in.ep, Ev{K: "Lshutdown.end"})
	nd.disk.Crash("shutdown")
	close(in.stopC)
	in.wg.Wait()
	c.zmu.Lock()
	c.zombies = append(c.zombies, in)
	c.zmu.Unlock()
	return in
}

// Leader returns some running node that reports Leader, or nil.
func (c *Cluster) Leader() *Node {
	for _, nd := range c.Nodes {
		if in := nd.Cur(); in != nil && in.r.State() == raft.Leader {
			return nd
		}
	}
	return nil
}

// Leaders returns all running nodes that report Leader.
// IsMemberNow: is nd listed (with or without a vote) in the configuration `from` currently reports?
func (c *Cluster) IsMemberNow(from, nd *Node) bool {
	in := from.Cur()
	if in == nil {
		return false
	}
	_, all := currentVoters(in)
	for _, v := range all {
		if v == nd.name {
			return true
		}
	}
	return false
}

// IsVoterNow: is nd a voter in the configuration `from` currently reports?
func (c *Cluster) IsVoterNow(from, nd *Node) bool {
	in := from.Cur()
	if in == nil {
		return false
	}
	f := in.r.GetConfiguration()
	if f.Error() != nil {
		return false
	}
	for _, s := range f.Configuration().Servers {
		if string(s.ID) == nd.name {
			return s.Suffrage == raft.Voter
		}
	}
	return false
}

func (c *Cluster) Leaders() []*Node {
	var out []*Node
	for _, nd := range c.Nodes {
		if in := nd.Cur(); in != nil && in.r.State() == raft.Leader {
			out = append(out, nd)
		}
	}
	return out
}

// ---- client calls ----

type CallResult struct {
	Err      error
	Index    uint64
	Resp     string
	Stranded bool
	Skipped  bool
}

// Call issues one API call on nd's current incarnation and records
// invoke / return. f must return the future (or a Future wrapping a blocking
// call).
func (c *Cluster) Call(client int, nd *Node, op, payload string, extra uint64, f func(r *raft.Raft) raft.Future) CallResult {
	in := nd.Cur()
	if in == nil {
		return CallResult{Skipped: true}
	}
	return c.CallInst(client, in, op, payload, extra, f)
}

func (c *Cluster) CallInst(client int, in *Inst, op, payload string, extra uint64, f func(r *raft.Raft) raft.Future) CallResult {
	id := c.callID.Add(1)
	disk := in.n.disk
	inv := Ev{K: "c.inv", A: id, B: uint64(client), C: extra, X: op, Y: payload}
	if in.shut.Load() {
		// calls on an incarnation that has been shut down are logged unconditionally
		inv.S, inv.Ep, inv.Z = in.n.name, in.ep, "after-shutdown"
		c.W.Log(inv)
	} else if !disk.LogIfLive(in.ep, inv) {
		return CallResult{Skipped: true}
	}
	type out struct {
		err  error
		idx  uint64
		resp string
	}
	done := make(chan out, 1)
	go func() {
		fut := f(in.r)
		var o out
		o.err = fut.Error()
		if o.err == nil {
			if ix, ok := fut.(raft.IndexFuture); ok {
				o.idx = ix.Index()
			}
			if ap, ok := fut.(raft.ApplyFuture); ok {
				if r := ap.Response(); r != nil {
					o.resp = fmt.Sprint(r)
				}
			}
			if cf, ok := fut.(raft.ConfigurationFuture); ok {
				o.resp = CfgString(cf.Configuration())
			}
		}
		done <- o
	}()
	select {
	case o := <-done:
		ret := Ev{K: "c.ret", A: id, B: o.idx, X: op, P: o.resp}
		if o.err != nil {
			ret.Z = o.err.Error()
			if ret.Z == "" {
				ret.Z = "error"
			}
		}
		if in.shut.Load() {
			ret.S, ret.Ep, ret.Y = in.n.name, in.ep, "after-shutdown"
			c.W.Log(ret)
		} else if !disk.LogIfLive(in.ep, ret) {
			ret.K, ret.S, ret.Ep = "c.ret.dead", in.n.name, in.ep
			c.W.Log(ret)
		}
		return CallResult{Err: o.err, Index: o.idx, Resp: o.resp}
	case <-time.After(CallWatchdog):
		st := in.r.State().String()
		c.W.Log(Ev{K: "c.stranded", A: id, S: in.n.name, Ep: in.ep, X: op, Y: st, B: b2u(in.shut.Load()), C: b2u(disk.Epoch() == in.ep)})
		return CallResult{Stranded: true}
	}
}

type errFuture struct{ err error }

func (e errFuture) Error() error { return e.err }

// Convenience wrappers -------------------------------------------------

func (c *Cluster) Apply(client int, nd *Node, payload string, timeout time.Duration) CallResult {
	return c.Call(client, nd, "apply", payload, uint64(timeout/time.Millisecond), func(r *raft.Raft) raft.Future {
		return r.Apply([]byte(payload), timeout)
	})
}

func (c *Cluster) Barrier(client int, nd *Node, timeout time.Duration) CallResult {
	return c.Call(client, nd, "barrier", "", 0, func(r *raft.Raft) raft.Future { return r.Barrier(timeout) })
}

func (c *Cluster) Verify(client int, nd *Node) CallResult {
	return c.Call(client, nd, "verify", "", 0, func(r *raft.Raft) raft.Future { return r.VerifyLeader() })
}

func (c *Cluster) Membership(client int, nd *Node, op string, target *Node, prev uint64, timeout time.Duration) CallResult {
	id, addr := raft.ServerID(target.name), raft.ServerAddress(target.name)
	return c.Call(client, nd, op, target.name, prev, func(r *raft.Raft) raft.Future {
		switch op {
		case "addvoter":
			return r.AddVoter(id, addr, prev, timeout)
		case "addnonvoter":
			return r.AddNonvoter(id, addr, prev, timeout)
		case "demote":
			return r.DemoteVoter(id, prev, timeout)
		case "remove":
			return r.RemoveServer(id, prev, timeout)
		}
		return errFuture{fmt.Errorf("bad op")}
	})
}

func (c *Cluster) Snapshot(client int, nd *Node) CallResult {
	return c.Call(client, nd, "snapshot", "", 0, func(r *raft.Raft) raft.Future { return r.Snapshot() })
}

func (c *Cluster) Transfer(client int, nd *Node, target *Node) CallResult {
	if target == nil {
		return c.Call(client, nd, "transfer", "", 0, func(r *raft.Raft) raft.Future { return r.LeadershipTransfer() })
	}
	return c.Call(client, nd, "transferto", target.name, 0, func(r *raft.Raft) raft.Future {
		return r.LeadershipTransferToServer(raft.ServerID(target.name), raft.ServerAddress(target.name))
	})
}

func (c *Cluster) GetConfig(client int, nd *Node) CallResult {
	return c.Call(client, nd, "getconfig", "", 0, func(r *raft.Raft) raft.Future { return r.GetConfiguration() })
}

func (c *Cluster) BootstrapCall(client int, nd *Node) CallResult {
	cfg := c.InitialConfiguration()
	return c.Call(client, nd, "bootstrap", "", 0, func(r *raft.Raft) raft.Future { return r.BootstrapCluster(cfg) })
}

// UserRestore calls Raft.Restore with a synthetic snapshot whose content is a
// valid FSM state unrelated to the log.
func (c *Cluster) UserRestore(client int, nd *Node, metaIndex, tag uint64, timeout time.Duration) CallResult {
	st := FSMState{Cnt: 100000 + tag, Last: metaIndex, Hash: Mix(tag, metaIndex, 0, []byte("user-restore")), KV: map[string]string{"restored": fmt.Sprintf("u%d", tag)}}
	content := st.Encode()
	return c.Call(client, nd, "restore", content, metaIndex, func(r *raft.Raft) raft.Future {
		meta := &raft.SnapshotMeta{Version: 1, ID: fmt.Sprintf("user-%d", tag), Index: metaIndex, Term: 1, Size: int64(len(content))}
		return errFuture{r.Restore(meta, strings.NewReader(content), timeout)}
	})
}

// Sample records (term, leader, state, term) of a running server (C18.3).
func (c *Cluster) Sample(nd *Node) {
	in := nd.Cur()
	if in == nil {
		return
	}
	t1 := in.r.CurrentTerm()
	_, id := in.r.LeaderWithID()
	st := in.r.State()
	t2 := in.r.CurrentTerm()
	nd.disk.LogIfLive(in.ep, Ev{K: "s.sample", A: t1, B: t2, C: uint64(st), X: string(id)})
}

// Reading records the externally visible state of a running server.
func (c *Cluster) Reading(nd *Node, tag string) {
	in := nd.Cur()
	if in == nil {
		c.W.Log(Ev{K: "s.read", S: nd.name, X: tag, Z: "down"})
		return
	}
	r := in.r
	if tag == "final" || tag == "quiet" {
		// LeaderCh holds the most recent transition until somebody takes it: at a rest point the
		// observer looks into the channel itself instead of waiting for the slow consumer
		select {
		case v := <-r.LeaderCh():
			nd.disk.LogIfLive(in.ep, Ev{K: "n.lch", A: b2u(v), B: 2})
		default:
		}
	}
	st := in.fsm.State()
	_, lid := r.LeaderWithID()
	nd.disk.LogIfLive(in.ep, Ev{K: "s.read", X: tag, A: r.CurrentTerm(), B: uint64(r.State()), C: r.LastIndex(), D: r.CommitIndex(), E: r.AppliedIndex(), F: st.Hash, Y: string(lid), P: CfgString(r.GetConfiguration().Configuration()), R: st.Encode()})
}
