package sim

import (
	"bytes"
	"errors"
	"fmt"
	"github.com/hashicorp/go-msgpack/v2/codec"
	"io"
	"sort"
	"strings"
	"sync"
	"time"

	"github.com/hashicorp/raft"
)

// Flavor selects the log-store behaviour a Disk presents to raft.
type Flavor struct {
	Monotonic bool `json:"monotonic,omitempty"` // IsMonotonic() == true
	Strict    bool `json:"strict,omitempty"`    // monotonic store that refuses a non-contiguous StoreLogs
}

func (f Flavor) String() string {
	switch {
	case f.Monotonic && f.Strict:
		return "monotonic-strict"
	case f.Monotonic:
		return "monotonic"
	}
	return "plain"
}

// CfgString renders a configuration canonically: "id=V@addr,id=N@addr".
func CfgString(c raft.Configuration) string {
	var sb strings.Builder
	for i, s := range c.Servers {
		if i > 0 {
			sb.WriteByte(',')
		}
		sb.WriteString(string(s.ID))
		sb.WriteByte('=')
		switch s.Suffrage {
		case raft.Voter:
			sb.WriteByte('V')
		case raft.Nonvoter:
			sb.WriteByte('N')
		default:
			sb.WriteByte('S')
		}
		sb.WriteByte('@')
		sb.WriteString(string(s.Address))
	}
	return sb.String()
}

// EntOf summarises a log entry for the event log.
func EntOf(l *raft.Log) Ent {
	e := Ent{I: l.Index, T: l.Term, Ty: uint8(l.Type)}
	switch l.Type {
	case raft.LogConfiguration:
		e.P = safeCfg(l.Data)
	case raft.LogAddPeerDeprecated, raft.LogRemovePeerDeprecated:
		// protocol versions below 3 bootstrap with the old peer-list entry: a configuration in which
		// every listed peer is a voter whose ID is its address. Recorded as the configuration it is.
		e.Ty = uint8(raft.LogConfiguration)
		e.P = peersCfg(l.Data)
	default:
		e.P = string(l.Data)
	}
	return e
}

func peersCfg(b []byte) (s string) {
	defer func() {
		if recover() != nil {
			s = "undecodable"
		}
	}()
	var peers [][]byte
	if err := codec.NewDecoderBytes(b, &codec.MsgpackHandle{}).Decode(&peers); err != nil {
		return "undecodable"
	}
	var c raft.Configuration
	for _, p := range peers {
		c.Servers = append(c.Servers, raft.Server{Suffrage: raft.Voter, ID: raft.ServerID(p), Address: raft.ServerAddress(p)})
	}
	return CfgString(c)
}

func safeCfg(b []byte) (s string) {
	defer func() {
		if recover() != nil {
			s = "undecodable"
		}
	}()
	return CfgString(raft.DecodeConfiguration(b))
}

type snap struct {
	meta raft.SnapshotMeta
	data []byte
	done bool
	bad  bool // damaged on disk: still listed (its meta file is fine), Open fails (checksum)
	seq  uint64
}

type image struct {
	logs   map[uint64]*raft.Log
	cstamp map[uint64]uint64 // commit index made durable together with the entry
	kv     map[string][]byte
	kvi    map[string]uint64
	snaps  []*snap
}

func newImage() *image {
	return &image{logs: map[uint64]*raft.Log{}, cstamp: map[uint64]uint64{}, kv: map[string][]byte{}, kvi: map[string]uint64{}}
}

func (im *image) clone() *image {
	n := newImage()
	for k, v := range im.logs {
		c := *v
		c.Data = append([]byte(nil), v.Data...)
		n.logs[k] = &c
	}
	for k, v := range im.cstamp {
		n.cstamp[k] = v
	}
	for k, v := range im.kv {
		n.kv[k] = append([]byte(nil), v...)
	}
	for k, v := range im.kvi {
		n.kvi[k] = v
	}
	for _, s := range im.snaps {
		if s.done { // an unfinished sink does not survive a crash
			c := *s
			n.snaps = append(n.snaps, &c)
		}
	}
	return n
}

func (im *image) bounds() (lo, hi uint64) {
	for k := range im.logs {
		if lo == 0 || k < lo {
			lo = k
		}
		if k > hi {
			hi = k
		}
	}
	return
}

// Fault arms one fault on the Nth next operation of a kind ("" = any kind).
type Fault struct {
	Kind string `json:"kind"` // op kind prefix, e.g. "store", "del", "setu.CurrentTerm", "set.LastVoteCand", "snap.close"
	Nth  int    `json:"nth"`  // 1 = next matching op
	When string `json:"when"` // "before" (crash before), "after" (crash after), "error"
}

// Disk is the durable state of one server across all its incarnations.
type Disk struct {
	StoreDelay time.Duration // set once before the first incarnation starts
	openFail   int           // the next n snapshot Open calls of the live incarnation fail (a transient read error)
	// StableDelay: a stable-store write takes this long before it takes effect (or the armed fault strikes). Meanwhile the
	// goroutine that issued it (usually raft's main loop) sits in the call while the others (heartbeat fast path, API readers) go on.
	StableDelay time.Duration
	w           *World
	name        string
	flavor      Flavor

	mu      sync.Mutex
	epoch   int
	im      *image
	ops     uint64
	snapSeq uint64
	faults  []*Fault
	// sticky fault: after `stickyAfter` more operations of kind `stickyKind`
	// every further one fails, until Disarm
	stickyKind  string
	stickyAfter int
	stickyOn    bool
	onCrash     func(reason string) // called (in a new goroutine) after a fault-triggered crash
	Taken       []string            // crash/error points actually taken: "kind/when"
}

// StoreDelay (field of Disk) makes every StoreLogs take that long in virtual time.
func NewDisk(w *World, name string, fl Flavor) *Disk {
	return &Disk{w: w, name: name, flavor: fl, im: newImage()}
}

// Handle is what one incarnation of a server gets: it implements LogStore,
// MonotonicLogStore, CommitTrackingLogStore, StableStore and SnapshotStore.
type Handle struct {
	d      *Disk
	ep     int
	im     *image
	staged uint64 // volatile staged commit index
	hasSt  bool
}

func (d *Disk) Open() *Handle {
	d.mu.Lock()
	defer d.mu.Unlock()
	return &Handle{d: d, ep: d.epoch, im: d.im}
}

func (d *Disk) Epoch() int { d.mu.Lock(); defer d.mu.Unlock(); return d.epoch }

// Arm adds a fault to the plan.
func (d *Disk) Arm(f Fault) {
	d.mu.Lock()
	d.faults = append(d.faults, &f)
	d.mu.Unlock()
}

// Disarm drops all pending faults.
func (d *Disk) Disarm() { d.mu.Lock(); d.faults = nil; d.stickyOn = false; d.mu.Unlock() }

// FailAfter lets n more operations of the kind succeed and fails all later ones.
func (d *Disk) FailAfter(kind string, n int) {
	d.mu.Lock()
	d.stickyKind, d.stickyAfter, d.stickyOn = kind, n, true
	d.mu.Unlock()
}

// LastLogIndex returns the largest index in the durable log.
func (d *Disk) LastLogIndex() uint64 {
	d.mu.Lock()
	defer d.mu.Unlock()
	_, hi := d.im.bounds()
	return hi
}

// Crash bumps the epoch now (a crash between two operations).
func (d *Disk) Crash(reason string) {
	d.mu.Lock()
	d.crashLocked(reason)
	d.mu.Unlock()
}

func (d *Disk) crashLocked(reason string) {
	d.epoch++
	d.im = d.im.clone() // successor gets the copy; the zombie keeps the old object
	d.w.Log(Ev{K: "Lcrash", S: d.name, Ep: d.epoch, X: reason, A: d.ops})
}

// LogIfLive appends ev only if (ep) is still the current incarnation; the
// check and the append are atomic with respect to crashes.
func (d *Disk) LogIfLive(ep int, e Ev) bool {
	d.mu.Lock()
	defer d.mu.Unlock()
	if ep != d.epoch {
		return false
	}
	e.S, e.Ep = d.name, ep
	d.w.Log(e)
	return true
}

var errInjected = errors.New("injected store failure")

// op runs one mutating operation. It returns an error if the fault plan says
// this operation fails.
func (h *Handle) op(kind string, e Ev, f func(im *image)) error {
	d := h.d
	d.mu.Lock()
	defer d.mu.Unlock()
	live := h.ep == d.epoch
	crashAfter := false
	if live {
		d.ops++
		if d.stickyOn && strings.HasPrefix(kind, d.stickyKind) {
			if d.stickyAfter > 0 {
				d.stickyAfter--
			} else {
				d.Taken = append(d.Taken, kind+"/error")
				e.K, e.S, e.Ep, e.Z = "d.err", d.name, h.ep, kind
				d.w.Log(e)
				return errInjected
			}
		}
		for i, ft := range d.faults {
			if ft.Kind != "" && !strings.HasPrefix(kind, ft.Kind) {
				continue
			}
			ft.Nth--
			if ft.Nth > 0 {
				continue
			}
			d.faults = append(d.faults[:i], d.faults[i+1:]...)
			when := ft.When
			if when == "error" && kind == "setu.CurrentTerm" {
				when = "before" // raft answers this failure with panic: that is a crash
			}
			d.Taken = append(d.Taken, kind+"/"+when)
			switch when {
			case "error":
				e.K, e.S, e.Ep, e.Z = "d.err", d.name, h.ep, kind
				d.w.Log(e)
				return errInjected
			case "before":
				d.crashLocked("before " + kind)
				live = false
				if d.onCrash != nil {
					go d.onCrash("before " + kind)
				}
			case "after":
				crashAfter = true
			}
			break
		}
	}
	f(h.im)
	if live {
		e.K, e.S, e.Ep = "d."+kind, d.name, h.ep
		d.w.Log(e)
		if crashAfter {
			d.crashLocked("after " + kind)
			if d.onCrash != nil {
				go d.onCrash("after " + kind)
			}
		}
	}
	return nil
}

// ---- LogStore ----

func (h *Handle) FirstIndex() (uint64, error) {
	h.d.mu.Lock()
	defer h.d.mu.Unlock()
	lo, _ := h.im.bounds()
	return lo, nil
}

func (h *Handle) LastIndex() (uint64, error) {
	h.d.mu.Lock()
	defer h.d.mu.Unlock()
	_, hi := h.im.bounds()
	return hi, nil
}

func (h *Handle) GetLog(i uint64, out *raft.Log) error {
	h.d.mu.Lock()
	defer h.d.mu.Unlock()
	l, ok := h.im.logs[i]
	if !ok {
		return raft.ErrLogNotFound
	}
	*out = *l
	out.Data = append([]byte(nil), l.Data...)
	return nil
}

func (h *Handle) StoreLog(l *raft.Log) error { return h.StoreLogs([]*raft.Log{l}) }

var errNonContiguous = errors.New("monotonic store: non-contiguous append")

func (h *Handle) StoreLogs(ls []*raft.Log) error {
	if len(ls) == 0 {
		return nil
	}
	if h.d.flavor.Strict {
		h.d.mu.Lock()
		_, hi := h.im.bounds()
		h.d.mu.Unlock()
		if hi != 0 && ls[0].Index != hi+1 {
			h.d.LogIfLive(h.ep, Ev{K: "d.refuse", A: ls[0].Index, B: hi})
			return errNonContiguous
		}
	}
	if d := h.d.StoreDelay; d > 0 {
		time.Sleep(d) // a slow disk: the caller (raft's main loop) sits in StoreLogs for a while
	}
	ev := Ev{A: ls[0].Index, B: ls[len(ls)-1].Index}
	for _, l := range ls {
		ev.Ents = append(ev.Ents, EntOf(l))
	}
	st, has := h.staged, h.hasSt
	if has {
		ev.C, ev.D = st, 1
	}
	return h.op("store", ev, func(im *image) {
		for _, l := range ls {
			c := *l
			c.Data = append([]byte(nil), l.Data...)
			im.logs[l.Index] = &c
			if has {
				im.cstamp[l.Index] = st
			} else {
				delete(im.cstamp, l.Index)
			}
		}
	})
}

func (h *Handle) DeleteRange(min, max uint64) error {
	h.d.mu.Lock()
	lo, hi := h.im.bounds()
	h.d.mu.Unlock()
	kind := "del.mid"
	switch {
	case lo == 0:
		kind = "del.empty"
	case min <= lo && max >= hi:
		kind = "del.all"
	case min <= lo:
		kind = "del.prefix"
	case max >= hi:
		kind = "del.suffix"
	}
	return h.op(kind, Ev{A: min, B: max, C: lo, D: hi}, func(im *image) {
		for k := range im.logs {
			if k >= min && k <= max {
				delete(im.logs, k)
				delete(im.cstamp, k)
			}
		}
	})
}

func (h *Handle) IsMonotonic() bool { return h.d.flavor.Monotonic }

// ---- CommitTrackingLogStore ----

func (h *Handle) StageCommitIndex(idx uint64) error {
	h.staged, h.hasSt = idx, true
	h.d.LogIfLive(h.ep, Ev{K: "d.stage", A: idx})
	return nil
}

func (h *Handle) GetCommitIndex() (uint64, error) {
	h.d.mu.Lock()
	defer h.d.mu.Unlock()
	_, hi := h.im.bounds()
	c := h.im.cstamp[hi]
	if c > hi {
		c = hi
	}
	return c, nil
}

// ---- StableStore ----

func (h *Handle) Set(k, v []byte) error {
	if d := h.d.StableDelay; d > 0 {
		time.Sleep(d)
	}
	return h.op("set."+string(k), Ev{X: string(k), Y: string(v)}, func(im *image) {
		im.kv[string(k)] = append([]byte(nil), v...)
	})
}

func (h *Handle) Get(k []byte) ([]byte, error) {
	h.d.mu.Lock()
	defer h.d.mu.Unlock()
	v := h.im.kv[string(k)]
	if v == nil {
		return nil, errors.New("not found")
	}
	return append([]byte(nil), v...), nil
}

func (h *Handle) SetUint64(k []byte, v uint64) error {
	if d := h.d.StableDelay; d > 0 {
		time.Sleep(d)
	}
	return h.op("setu."+string(k), Ev{X: string(k), A: v}, func(im *image) { im.kvi[string(k)] = v })
}

func (h *Handle) GetUint64(k []byte) (uint64, error) {
	h.d.mu.Lock()
	defer h.d.mu.Unlock()
	return h.im.kvi[string(k)], nil
}

// ---- SnapshotStore ----

type sink struct {
	h   *Handle
	s   *snap
	buf bytes.Buffer
	fin bool
}

func snapLess(a, b *snap) bool { // a older than b
	if a.meta.Term != b.meta.Term {
		return a.meta.Term < b.meta.Term
	}
	if a.meta.Index != b.meta.Index {
		return a.meta.Index < b.meta.Index
	}
	return a.seq < b.seq
}

func (h *Handle) Create(v raft.SnapshotVersion, index, term uint64, cfg raft.Configuration, cfgIdx uint64, tr raft.Transport) (raft.SnapshotSink, error) {
	h.d.mu.Lock()
	h.d.snapSeq++
	seq := h.d.snapSeq
	h.d.mu.Unlock()
	s := &snap{seq: seq, meta: raft.SnapshotMeta{Version: v, ID: fmt.Sprintf("%d-%d-%06d", term, index, seq), Index: index, Term: term, Configuration: cfg.Clone(), ConfigurationIndex: cfgIdx}}
	err := h.op("snap.create", Ev{A: index, B: term, C: cfgIdx, X: s.meta.ID, Y: CfgString(cfg)}, func(im *image) { im.snaps = append(im.snaps, s) })
	if err != nil {
		return nil, err
	}
	return &sink{h: h, s: s}, nil
}

func (k *sink) Write(p []byte) (int, error) {
	if err := k.h.op("snap.write", Ev{X: k.s.meta.ID, A: uint64(len(p))}, func(*image) {}); err != nil {
		return 0, err
	}
	return k.buf.Write(p)
}

func (k *sink) ID() string { return k.s.meta.ID }

func (k *sink) Close() error {
	if k.fin {
		return nil
	}
	k.fin = true
	data := append([]byte(nil), k.buf.Bytes()...)
	return k.h.op("snap.close", Ev{A: k.s.meta.Index, B: k.s.meta.Term, X: k.s.meta.ID, Y: string(data)}, func(im *image) {
		k.s.data = data
		k.s.meta.Size = int64(len(data))
		k.s.done = true
		// retain the 2 newest complete snapshots by (term, index, seq)
		var done []*snap
		for _, s := range im.snaps {
			if s.done {
				done = append(done, s)
			}
		}
		sort.Slice(done, func(i, j int) bool { return snapLess(done[j], done[i]) })
		drop := map[*snap]bool{}
		for i := 2; i < len(done); i++ {
			drop[done[i]] = true
		}
		var keep []*snap
		for _, s := range im.snaps {
			if !drop[s] {
				keep = append(keep, s)
			}
		}
		im.snaps = keep
	})
}

func (k *sink) Cancel() error {
	if k.fin {
		return nil
	}
	k.fin = true
	return k.h.op("snap.cancel", Ev{A: k.s.meta.Index, X: k.s.meta.ID}, func(im *image) {
		for i, s := range im.snaps {
			if s == k.s {
				im.snaps = append(im.snaps[:i], im.snaps[i+1:]...)
				break
			}
		}
	})
}

func (h *Handle) List() ([]*raft.SnapshotMeta, error) {
	h.d.mu.Lock()
	defer h.d.mu.Unlock()
	var done []*snap
	for _, s := range h.im.snaps {
		if s.done {
			done = append(done, s)
		}
	}
	sort.Slice(done, func(i, j int) bool { return snapLess(done[j], done[i]) })
	var out []*raft.SnapshotMeta
	for _, s := range done {
		m := s.meta
		m.Configuration = m.Configuration.Clone()
		out = append(out, &m)
	}
	return out, nil
}

func (h *Handle) Open(id string) (*raft.SnapshotMeta, io.ReadCloser, error) {
	h.d.mu.Lock()
	defer h.d.mu.Unlock()
	for _, s := range h.im.snaps {
		if s.done && s.meta.ID == id {
			if h.d.openFail > 0 && h.ep == h.d.epoch {
				h.d.openFail--
				h.d.w.Log(Ev{K: "d.snap.openfail", S: h.d.name, Ep: h.ep, X: id})
				return nil, nil, fmt.Errorf("snapshot %s: injected read error", id)
			}
			if s.bad {
				return nil, nil, fmt.Errorf("snapshot %s is damaged (CRC mismatch)", id)
			}
			m := s.meta
			m.Configuration = m.Configuration.Clone()
			return &m, io.NopCloser(bytes.NewReader(append([]byte(nil), s.data...))), nil
		}
	}
	return nil, nil, fmt.Errorf("no snapshot %s", id)
}

// FailNextOpens makes the next n snapshot Open calls fail; OpenFailsLeft tells how many are still armed.
func (d *Disk) FailNextOpens(n int) { d.mu.Lock(); d.openFail = n; d.mu.Unlock() }
func (d *Disk) OpenFailsLeft() int  { d.mu.Lock(); defer d.mu.Unlock(); return d.openFail }

// DamageNewestSnapshot makes the newest complete snapshot of the durable image unreadable (to be called
// while the server is down): start-up has to fall back to the next usable one.
func (d *Disk) DamageNewestSnapshot() bool {
	d.mu.Lock()
	defer d.mu.Unlock()
	var best *snap
	n := 0
	for _, s := range d.im.snaps {
		if s.done && !s.bad {
			n++
			if best == nil || snapLess(best, s) {
				best = s
			}
		}
	}
	if n < 2 {
		return false // nothing to fall back to
	}
	best.bad = true
	d.w.Log(Ev{K: "d.snap.damage", S: d.name, Ep: d.epoch, X: best.meta.ID, A: best.meta.Index})
	return true
}

// ---- inspection helpers (HANDLER engine, tests) ----

// DumpLog returns the current durable log as entry summaries ordered by index.
func (d *Disk) DumpLog() []Ent {
	d.mu.Lock()
	defer d.mu.Unlock()
	var out []Ent
	for _, l := range d.im.logs {
		out = append(out, EntOf(l))
	}
	sort.Slice(out, func(i, j int) bool { return out[i].I < out[j].I })
	return out
}

// Stable returns the durable term / vote record.
func (d *Disk) Stable() (term, voteTerm uint64, voteCand string, hasCand bool) {
	d.mu.Lock()
	defer d.mu.Unlock()
	c, ok := d.im.kv["LastVoteCand"]
	return d.im.kvi["CurrentTerm"], d.im.kvi["LastVoteTerm"], string(c), ok && c != nil
}

// NewestSnapshot returns (index, term) of the newest complete snapshot.
func (d *Disk) NewestSnapshot() (uint64, uint64) {
	d.mu.Lock()
	defer d.mu.Unlock()
	var best *snap
	for _, s := range d.im.snaps {
		if s.done && (best == nil || snapLess(best, s)) {
			best = s
		}
	}
	if best == nil {
		return 0, 0
	}
	return best.meta.Index, best.meta.Term
}

// Ops returns the number of mutating operations performed so far.
func (d *Disk) Ops() uint64 { d.mu.Lock(); defer d.mu.Unlock(); return d.ops }

// OnCrash sets the callback invoked after a fault-triggered crash.
func (d *Disk) OnCrash(f func(reason string)) { d.mu.Lock(); d.onCrash = f; d.mu.Unlock() }

// Name returns the server name.
func (d *Disk) Name() string { return d.name }
