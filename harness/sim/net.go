package sim

import (
	"bytes"
	"errors"
	"io"
	"math/rand"
	"strconv"
	"sync"
	"time"

	"github.com/hashicorp/raft"
)

// Net is the simulated network shared by all servers of one execution:
// the current endpoint per address, the reachability matrix and the seeded
// per-message fault plan.
type Net struct {
	w      *World
	mu     sync.Mutex
	eps    map[raft.ServerAddress]*Trans
	cut    map[[2]string]bool          // directed: from -> to unreachable
	slow   map[[2]string]time.Duration // directed: requests from -> to are delivered this much later
	reqCut map[[2]string]bool          // directed: requests from -> to are lost, responses to requests of `to` still travel
	rng    *rand.Rand
	ids    uint64

	DropP, RespDropP, DelayP, DupP float64
	MaxDelay                       time.Duration

	// kindDup: every request of this kind is delivered a second time, this much later
	kindDup map[string]time.Duration

	// zero-time step budget (see DESIGN 2.3)
	link map[[2]string]*linkStat
	Spin int
}

type linkStat struct {
	at    int64
	n     int
	quar  bool
	kinds []string
	sigs  map[string]int
}

// spinBudget: how often the very same request (kind + position) may be
// delivered on one link without virtual time advancing. A healthy catch-up
// sends thousands of requests at one instant, but each with a new position.
const spinBudget = 200

func NewNet(w *World, seed int64) *Net {
	return &Net{w: w, eps: map[raft.ServerAddress]*Trans{}, cut: map[[2]string]bool{}, rng: rand.New(rand.NewSource(seed)),
		MaxDelay: 30 * time.Millisecond, link: map[[2]string]*linkStat{}}
}

func (n *Net) SetCut(from, to string, v bool) {
	n.mu.Lock()
	if v {
		n.cut[[2]string{from, to}] = true
	} else {
		delete(n.cut, [2]string{from, to})
	}
	n.w.Log(Ev{K: "x.cut", S: from, X: to, A: b2u(v)})
	n.mu.Unlock()
}

// CutMany applies several directed cuts atomically.
func (n *Net) CutMany(pairs [][2]string) {
	n.mu.Lock()
	for _, p := range pairs {
		n.cut[p] = true
		n.w.Log(Ev{K: "x.cut", S: p[0], X: p[1], A: 1})
	}
	n.w.Log(Ev{K: "x.cutdone"})
	n.mu.Unlock()
}

func (n *Net) Heal() {
	n.mu.Lock()
	n.cut = map[[2]string]bool{}
	n.slow = nil
	n.reqCut = nil
	for _, l := range n.link {
		l.quar = false
	}
	n.w.Log(Ev{K: "x.heal"})
	n.mu.Unlock()
}

// SetLinkDelay delays every request on the directed link by d (0 removes it); Heal removes all.
func (n *Net) SetLinkDelay(from, to string, d time.Duration) {
	n.mu.Lock()
	if n.slow == nil {
		n.slow = map[[2]string]time.Duration{}
	}
	if d == 0 {
		delete(n.slow, [2]string{from, to})
	} else {
		n.slow[[2]string{from, to}] = d
	}
	n.mu.Unlock()
	n.w.Log(Ev{K: "x.slow", S: from, X: to, A: uint64(d / time.Millisecond)})
}

func (n *Net) SetFaults(drop, respDrop, delay, dup float64, maxDelay time.Duration) {
	n.mu.Lock()
	n.DropP, n.RespDropP, n.DelayP, n.DupP = drop, respDrop, delay, dup
	if maxDelay > 0 {
		n.MaxDelay = maxDelay
	}
	n.mu.Unlock()
}

func (n *Net) isCut(from, to string) bool {
	n.mu.Lock()
	defer n.mu.Unlock()
	return n.cut[[2]string{from, to}]
}

// isReqCut: may a request travel from -> to?
func (n *Net) isReqCut(from, to string) bool {
	n.mu.Lock()
	defer n.mu.Unlock()
	return n.cut[[2]string{from, to}] || n.reqCut[[2]string{from, to}]
}

// SetReqCut loses the requests sent from -> to while responses to requests travelling the other
// way still arrive (a link that has come back in one direction only). Heal removes it.
func (n *Net) SetReqCut(from, to string, v bool) {
	n.mu.Lock()
	if n.reqCut == nil {
		n.reqCut = map[[2]string]bool{}
	}
	if v {
		n.reqCut[[2]string{from, to}] = true
	} else {
		delete(n.reqCut, [2]string{from, to})
	}
	n.mu.Unlock()
	n.w.Log(Ev{K: "x.cut", S: from, X: to, A: b2u(v), Y: "requests-only"})
}

// SetKindDup makes the network deliver every request of one kind ("tn", "rv", ...) twice, the
// copy d later (0 removes the rule). Heal leaves it alone.
func (n *Net) SetKindDup(kind string, d time.Duration) {
	n.mu.Lock()
	if n.kindDup == nil {
		n.kindDup = map[string]time.Duration{}
	}
	if d == 0 {
		delete(n.kindDup, kind)
	} else {
		n.kindDup[kind] = d
	}
	n.mu.Unlock()
	n.w.Log(Ev{K: "x.kinddup", X: kind, A: uint64(d / time.Millisecond)})
}

type fate struct {
	dupAfter                            time.Duration
	dropReq, dropResp, dup, quarantined bool
	cutBody                             bool
	delayReq, delayResp                 time.Duration
	failLatency                         time.Duration
}

func (n *Net) fate(from, to, kind string, pos uint64) fate {
	n.mu.Lock()
	defer n.mu.Unlock()
	var f fate
	k := [2]string{from, to}
	ls := n.link[k]
	if ls == nil {
		ls = &linkStat{}
		n.link[k] = ls
	}
	now := n.w.Now()
	if ls.at == now {
		ls.n++
		if len(ls.kinds) < 8 {
			ls.kinds = append(ls.kinds, kind)
		}
		if ls.sigs == nil {
			ls.sigs = map[string]int{}
		}
		sig := kind + "@" + strconv.FormatUint(pos, 10)
		ls.sigs[sig]++
		if ls.sigs[sig] > spinBudget && !ls.quar {
			ls.quar = true
			n.Spin++
			pat := ""
			for _, s := range ls.kinds {
				pat += s + ","
			}
			n.w.Log(Ev{K: "spin", S: from, X: to, A: uint64(ls.n), Y: pat})
		}
	} else {
		ls.at, ls.n, ls.kinds, ls.sigs = now, 1, ls.kinds[:0], nil
	}
	f.failLatency = []time.Duration{time.Millisecond, 20 * time.Millisecond, 100 * time.Millisecond}[n.rng.Intn(3)]
	if ls.quar {
		f.quarantined = true
		f.failLatency = 10 * time.Millisecond
		return f
	}
	if n.rng.Float64() < n.DropP {
		f.dropReq = true
	}
	if n.rng.Float64() < n.RespDropP {
		f.dropResp = true
	}
	if n.rng.Float64() < n.DelayP {
		f.delayReq = time.Duration(n.rng.Int63n(int64(n.MaxDelay) + 1))
	}
	if n.rng.Float64() < n.DelayP {
		f.delayResp = time.Duration(n.rng.Int63n(int64(n.MaxDelay) + 1))
	}
	if n.rng.Float64() < n.DupP {
		f.dup = true
	}
	if kind == "is" && n.DropP > 0 && n.rng.Float64() < 0.3 {
		f.cutBody = true // lossy network: a snapshot stream may end early
	}
	f.delayReq += n.slow[k]
	if d := n.kindDup[kind]; d > 0 {
		f.dup, f.dupAfter = true, d
	}
	return f
}

// Trans is one incarnation's endpoint. It implements raft.Transport,
// raft.WithPreVote and raft.WithClose.
type Trans struct {
	net      *Net
	addr     raft.ServerAddress
	ch       chan raft.RPC
	disk     *Disk
	ep       int
	closed   chan struct{}
	once     sync.Once
	hbMu     sync.Mutex
	hb       func(raft.RPC)
	FastPath bool
	Pipeline bool
	PipeMax  int
}

var errNet = errors.New("simnet: unreachable")
var errNetTimeout = errors.New("simnet: timed out")

const (
	enqueueTimeout = 500 * time.Millisecond
	respTimeout    = 10 * time.Second
)

func (n *Net) NewTrans(addr string, d *Disk, ep int, fastPath, pipeline bool) *Trans {
	t := &Trans{net: n, addr: raft.ServerAddress(addr), ch: make(chan raft.RPC), disk: d, ep: ep, closed: make(chan struct{}), FastPath: fastPath, Pipeline: pipeline, PipeMax: 8}
	n.mu.Lock()
	n.eps[t.addr] = t
	n.mu.Unlock()
	return t
}

func (t *Trans) live() bool { return t.disk.Epoch() == t.ep }

func (t *Trans) Consumer() <-chan raft.RPC                                { return t.ch }
func (t *Trans) LocalAddr() raft.ServerAddress                            { return t.addr }
func (t *Trans) EncodePeer(id raft.ServerID, a raft.ServerAddress) []byte { return []byte(a) }
func (t *Trans) DecodePeer(b []byte) raft.ServerAddress                   { return raft.ServerAddress(b) }
func (t *Trans) SetHeartbeatHandler(cb func(raft.RPC)) {
	t.hbMu.Lock()
	t.hb = cb
	t.hbMu.Unlock()
}
func (t *Trans) Close() error { t.once.Do(func() { close(t.closed) }); return nil }

// Inject hands an RPC straight to this endpoint's consumer (HANDLER engine).
func (t *Trans) Inject(cmd interface{}, rd io.Reader) raft.RPCResponse {
	ch := make(chan raft.RPCResponse, 1)
	t.ch <- raft.RPC{Command: cmd, Reader: rd, RespChan: ch}
	return <-ch
}

func b2u(b bool) uint64 {
	if b {
		return 1
	}
	return 0
}

func reqEv(kind string, req interface{}, data []byte) Ev {
	var e Ev
	switch a := req.(type) {
	case *raft.AppendEntriesRequest:
		e.B, e.C, e.D, e.E, e.Z = a.Term, a.PrevLogEntry, a.PrevLogTerm, a.LeaderCommitIndex, string(a.ID)
		for _, l := range a.Entries {
			e.Ents = append(e.Ents, EntOf(l))
		}
	case *raft.RequestVoteRequest:
		e.B, e.C, e.D, e.E, e.Z = a.Term, a.LastLogIndex, a.LastLogTerm, b2u(a.LeadershipTransfer), string(a.ID)
	case *raft.RequestPreVoteRequest:
		e.B, e.C, e.D, e.Z = a.Term, a.LastLogIndex, a.LastLogTerm, string(a.ID)
	case *raft.InstallSnapshotRequest:
		e.B, e.C, e.D, e.E, e.F, e.Z = a.Term, a.LastLogIndex, a.LastLogTerm, uint64(a.Size), a.ConfigurationIndex, string(a.ID)
		e.P = safeCfg(a.Configuration)
		e.R = string(data)
	case *raft.TimeoutNowRequest:
		e.Z = string(a.ID)
	}
	return e
}

func respEv(resp interface{}) Ev {
	var e Ev
	switch a := resp.(type) {
	case *raft.AppendEntriesResponse:
		e.B, e.C, e.D, e.E = b2u(a.Success), a.Term, a.LastLog, b2u(a.NoRetryBackoff)
	case *raft.RequestVoteResponse:
		e.B, e.C = b2u(a.Granted), a.Term
	case *raft.RequestPreVoteResponse:
		e.B, e.C = b2u(a.Granted), a.Term
	case *raft.InstallSnapshotResponse:
		e.B, e.C = b2u(a.Success), a.Term
	}
	return e
}

func copyLogs(in []*raft.Log) []*raft.Log {
	if in == nil {
		return nil
	}
	out := make([]*raft.Log, len(in))
	for i, l := range in {
		c := *l
		c.Data = append([]byte(nil), l.Data...)
		c.Extensions = append([]byte(nil), l.Extensions...)
		out[i] = &c
	}
	return out
}

func copyReq(req interface{}) interface{} {
	switch a := req.(type) {
	case *raft.AppendEntriesRequest:
		c := *a
		c.Entries = copyLogs(a.Entries)
		return &c
	case *raft.RequestVoteRequest:
		c := *a
		return &c
	case *raft.RequestPreVoteRequest:
		c := *a
		return &c
	case *raft.InstallSnapshotRequest:
		c := *a
		c.Configuration = append([]byte(nil), a.Configuration...)
		return &c
	case *raft.TimeoutNowRequest:
		c := *a
		return &c
	}
	return req
}

func copyResp(resp interface{}) interface{} {
	switch a := resp.(type) {
	case *raft.AppendEntriesResponse:
		c := *a
		return &c
	case *raft.RequestVoteResponse:
		c := *a
		return &c
	case *raft.RequestPreVoteResponse:
		c := *a
		return &c
	case *raft.InstallSnapshotResponse:
		c := *a
		return &c
	case *raft.TimeoutNowResponse:
		c := *a
		return &c
	}
	return resp
}

func isHeartbeat(req interface{}) bool {
	a, ok := req.(*raft.AppendEntriesRequest)
	if !ok {
		return false
	}
	leader := a.Addr
	if len(leader) == 0 {
		leader = a.Leader
	}
	return a.Term != 0 && leader != nil && a.PrevLogEntry == 0 && a.PrevLogTerm == 0 && len(a.Entries) == 0 && a.LeaderCommitIndex == 0
}

// deliver hands one copy of the request to the peer and waits for the
// response; returns the response as produced by the peer.
func (t *Trans) deliver(peer *Trans, id uint64, kind string, req interface{}, data []byte, dupOf uint64) (interface{}, error) {
	respCh := make(chan raft.RPCResponse, 1)
	rpc := raft.RPC{Command: copyReq(req), RespChan: respCh}
	if data != nil {
		rpc.Reader = bytes.NewReader(data)
	}
	if !peer.disk.LogIfLive(peer.ep, Ev{K: "r.deliver", A: id, X: string(t.addr), Y: kind, F: dupOf}) {
		return nil, errNet
	}
	peer.hbMu.Lock()
	hb := peer.hb
	peer.hbMu.Unlock()
	if peer.FastPath && hb != nil && isHeartbeat(req) {
		hb(rpc)
	} else {
		select {
		case peer.ch <- rpc:
		case <-time.After(enqueueTimeout):
			t.net.w.Log(Ev{K: "r.timeout", A: id, X: "enqueue"})
			return nil, errNetTimeout
		case <-peer.closed:
			return nil, errNet
		}
	}
	var rr raft.RPCResponse
	select {
	case rr = <-respCh:
	case <-time.After(respTimeout):
		t.net.w.Log(Ev{K: "r.timeout", A: id, X: "response"})
		return nil, errNetTimeout
	case <-peer.closed:
		// the peer shut down; a response may still have been produced
		select {
		case rr = <-respCh:
		default:
			return nil, errNet
		}
	}
	ev := respEv(rr.Response)
	ev.K, ev.A, ev.X, ev.Y, ev.F = "r.resp", id, string(t.addr), kind, dupOf
	if rr.Error != nil {
		ev.Z = rr.Error.Error()
	}
	if !peer.disk.LogIfLive(peer.ep, ev) {
		return nil, errNet
	}
	if rr.Error != nil {
		return nil, rr.Error
	}
	return copyResp(rr.Response), nil
}

func (t *Trans) call(target raft.ServerAddress, kind string, req interface{}, rd io.Reader) (interface{}, error) {
	var data []byte
	if rd != nil {
		data, _ = io.ReadAll(rd)
	}
	t.net.mu.Lock()
	t.net.ids++
	id := t.net.ids
	t.net.mu.Unlock()
	ev := reqEv(kind, req, data)
	ev.K, ev.A, ev.X, ev.Y = "r.send", id, string(target), kind
	if !t.disk.LogIfLive(t.ep, ev) {
		return nil, errNet
	}
	f := t.net.fate(string(t.addr), string(target), kind, ev.C)
	if kind == "is" && len(data) > 1 && f.cutBody {
		// the stream of a snapshot ends early (the sender or the connection dies mid-transfer):
		// the receiver gets fewer bytes than the request announces
		data = data[:len(data)/2]
		t.net.w.Log(Ev{K: "r.cutbody", A: id, B: uint64(len(data))})
	}
	if f.quarantined || f.dropReq || t.net.isReqCut(string(t.addr), string(target)) {
		t.net.w.Log(Ev{K: "r.drop", A: id, X: "req"})
		time.Sleep(f.failLatency)
		return nil, errNet
	}
	if f.delayReq > 0 {
		time.Sleep(f.delayReq)
	}
	t.net.mu.Lock()
	peer := t.net.eps[target]
	cut := t.net.cut[[2]string{string(t.addr), string(target)}] || t.net.reqCut[[2]string{string(t.addr), string(target)}]
	t.net.mu.Unlock()
	if peer == nil || cut || !peer.live() {
		t.net.w.Log(Ev{K: "r.drop", A: id, X: "req-late"})
		time.Sleep(f.failLatency)
		return nil, errNet
	}
	resp, err := t.deliver(peer, id, kind, req, data, 0)
	if err != nil {
		return nil, err
	}
	if f.dup {
		// the network delivers the same request a second time; its response is discarded.
		// The copy is taken now: raft reuses the request struct for its next request.
		req := copyReq(req)
		go func() {
			time.Sleep(f.delayResp + time.Millisecond + f.dupAfter)
			t.net.mu.Lock()
			t.net.ids++
			id2 := t.net.ids
			p2 := t.net.eps[target]
			t.net.mu.Unlock()
			if p2 == nil || !p2.live() {
				return
			}
			e2 := reqEv(kind, req, data)
			e2.K, e2.A, e2.X, e2.Y, e2.F = "r.send", id2, string(target), kind, id
			if !t.disk.LogIfLive(t.ep, e2) {
				return
			}
			t.deliver(p2, id2, kind, req, data, id)
		}()
	}
	if f.dropResp || t.net.isCut(string(target), string(t.addr)) {
		t.net.w.Log(Ev{K: "r.drop", A: id, X: "resp"})
		time.Sleep(f.failLatency)
		return nil, errNet
	}
	if f.delayResp > 0 {
		time.Sleep(f.delayResp)
		if t.net.isCut(string(target), string(t.addr)) {
			t.net.w.Log(Ev{K: "r.drop", A: id, X: "resp-late"})
			return nil, errNet
		}
	}
	rev := respEv(resp)
	rev.K, rev.A, rev.X, rev.Y = "r.recv", id, string(target), kind
	if !t.disk.LogIfLive(t.ep, rev) {
		return nil, errNet
	}
	return resp, nil
}

func (t *Trans) AppendEntries(id raft.ServerID, target raft.ServerAddress, a *raft.AppendEntriesRequest, r *raft.AppendEntriesResponse) error {
	out, err := t.call(target, "ae", a, nil)
	if err != nil {
		return err
	}
	*r = *out.(*raft.AppendEntriesResponse)
	return nil
}

func (t *Trans) RequestVote(id raft.ServerID, target raft.ServerAddress, a *raft.RequestVoteRequest, r *raft.RequestVoteResponse) error {
	out, err := t.call(target, "rv", a, nil)
	if err != nil {
		return err
	}
	*r = *out.(*raft.RequestVoteResponse)
	return nil
}

func (t *Trans) RequestPreVote(id raft.ServerID, target raft.ServerAddress, a *raft.RequestPreVoteRequest, r *raft.RequestPreVoteResponse) error {
	out, err := t.call(target, "pv", a, nil)
	if err != nil {
		return err
	}
	*r = *out.(*raft.RequestPreVoteResponse)
	return nil
}

func (t *Trans) InstallSnapshot(id raft.ServerID, target raft.ServerAddress, a *raft.InstallSnapshotRequest, r *raft.InstallSnapshotResponse, data io.Reader) error {
	out, err := t.call(target, "is", a, data)
	if err != nil {
		return err
	}
	*r = *out.(*raft.InstallSnapshotResponse)
	return nil
}

func (t *Trans) TimeoutNow(id raft.ServerID, target raft.ServerAddress, a *raft.TimeoutNowRequest, r *raft.TimeoutNowResponse) error {
	out, err := t.call(target, "tn", a, nil)
	if err != nil {
		return err
	}
	*r = *out.(*raft.TimeoutNowResponse)
	return nil
}

// ---- pipeline ----

type pfut struct {
	start time.Time
	args  *raft.AppendEntriesRequest
	resp  *raft.AppendEntriesResponse
	err   error
	done  chan struct{}
}

func (p *pfut) Error() error                          { <-p.done; return p.err }
func (p *pfut) Start() time.Time                      { return p.start }
func (p *pfut) Request() *raft.AppendEntriesRequest   { return p.args }
func (p *pfut) Response() *raft.AppendEntriesResponse { return p.resp }

type pipe struct {
	t      *Trans
	target raft.ServerAddress
	inprog chan *pfut
	doneCh chan raft.AppendFuture
	shut   chan struct{}
	once   sync.Once
}

func (t *Trans) AppendEntriesPipeline(id raft.ServerID, target raft.ServerAddress) (raft.AppendPipeline, error) {
	if !t.Pipeline {
		return nil, raft.ErrPipelineReplicationNotSupported
	}
	if !t.live() || t.net.isReqCut(string(t.addr), string(target)) {
		return nil, errNet
	}
	p := &pipe{t: t, target: target, inprog: make(chan *pfut, t.PipeMax), doneCh: make(chan raft.AppendFuture, t.PipeMax), shut: make(chan struct{})}
	go p.run()
	return p, nil
}

func (p *pipe) run() {
	for {
		select {
		case f := <-p.inprog:
			out, err := p.t.call(p.target, "ae", f.args, nil)
			if err == nil {
				*f.resp = *out.(*raft.AppendEntriesResponse)
			}
			f.err = err
			close(f.done)
			select {
			case p.doneCh <- f:
			case <-p.shut:
				return
			}
		case <-p.shut:
			return
		}
	}
}

func (p *pipe) AppendEntries(args *raft.AppendEntriesRequest, resp *raft.AppendEntriesResponse) (raft.AppendFuture, error) {
	f := &pfut{start: time.Now(), args: args, resp: resp, done: make(chan struct{})}
	select {
	case <-p.shut:
		return nil, raft.ErrPipelineShutdown
	default:
	}
	select {
	case p.inprog <- f:
		return f, nil
	case <-p.shut:
		return nil, raft.ErrPipelineShutdown
	}
}

func (p *pipe) Consumer() <-chan raft.AppendFuture { return p.doneCh }
func (p *pipe) Close() error                       { p.once.Do(func() { close(p.shut) }); return nil }
