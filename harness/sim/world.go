// Package sim runs a whole hashicorp/raft cluster (the real code, built from
// /repo's working tree with -tags verif) inside a testing/synctest bubble on
// harness-owned disks and transports, and records one totally ordered event
// log per execution. The oracles in package oracle are pure functions of that
// log.
package sim

import (
	"bufio"
	"encoding/json"
	"os"
	"strconv"
	"sync"
	"syscall"
	"time"
)

// Ent is the summary of one log entry carried by store and RPC events.
type Ent struct {
	I  uint64 `json:"i"`           // index
	T  uint64 `json:"t"`           // term
	Ty uint8  `json:"y"`           // raft.LogType
	P  string `json:"p,omitempty"` // payload: command data, or canonical configuration string
}

// Ev is one observation. Field meaning depends on K (see DESIGN.md / oracle).
type Ev struct {
	Seq  uint64 `json:"q"`
	T    int64  `json:"t"` // virtual nanoseconds since the start of the execution
	K    string `json:"k"`
	S    string `json:"s,omitempty"`
	Ep   int    `json:"e,omitempty"`
	A    uint64 `json:"a,omitempty"`
	B    uint64 `json:"b,omitempty"`
	C    uint64 `json:"c,omitempty"`
	D    uint64 `json:"d,omitempty"`
	E    uint64 `json:"g,omitempty"`
	F    uint64 `json:"h,omitempty"`
	X    string `json:"x,omitempty"`
	Y    string `json:"y,omitempty"`
	Z    string `json:"z,omitempty"`
	P    string `json:"p,omitempty"`
	R    string `json:"r,omitempty"`
	Ents []Ent  `json:"n,omitempty"`
}

// World is the per-execution event log. All appends are serialised by mu and
// get a global sequence number and the virtual timestamp.
type World struct {
	mu     sync.Mutex
	seq    uint64
	chunks [][]Ev
	start  time.Time
	file   *os.File
	buf    []byte
	// The streamed copy is a MAP_SHARED mapping of a sparse file: what was
	// copied into it survives a process-fatal event (panic inside raft) without
	// any write or flush system call per event.
	mm    []byte
	mmOff int
}

const mmSize = 1 << 30

const chunkSize = 8192

// NewWorld creates the log; when path is non-empty every event is also
// streamed to that file as JSONL so that a process-fatal event still leaves
// the history behind.
func NewWorld(path string) *World {
	w := &World{start: time.Now()}
	if path != "" {
		f, err := os.Create(path)
		if err == nil && f.Truncate(mmSize) == nil {
			if mm, err := syscall.Mmap(int(f.Fd()), 0, mmSize, syscall.PROT_READ|syscall.PROT_WRITE, syscall.MAP_SHARED); err == nil {
				w.file, w.mm = f, mm
			}
		}
	}
	return w
}

// Now returns virtual nanoseconds since the start.
func (w *World) Now() int64 { return int64(time.Since(w.start)) }

// Log appends an event and returns its sequence number.
func (w *World) Log(e Ev) uint64 {
	w.mu.Lock()
	w.seq++
	e.Seq = w.seq
	e.T = int64(time.Since(w.start))
	if n := len(w.chunks); n == 0 || len(w.chunks[n-1]) == chunkSize {
		w.chunks = append(w.chunks, make([]Ev, 0, chunkSize))
	}
	n := len(w.chunks) - 1
	w.chunks[n] = append(w.chunks[n], e)
	if w.mm != nil {
		w.buf = appendEv(w.buf[:0], &e)
		if w.mmOff+len(w.buf) < len(w.mm) {
			copy(w.mm[w.mmOff:], w.buf)
			w.mmOff += len(w.buf)
		}
	}
	w.mu.Unlock()
	return e.Seq
}

// Flush trims the streamed copy to what was written.
func (w *World) Flush() {
	w.mu.Lock()
	if w.mm != nil {
		syscall.Munmap(w.mm)
		w.mm = nil
		w.file.Truncate(int64(w.mmOff))
		w.file.Close()
	}
	w.mu.Unlock()
}

// Chunks returns the event storage itself (no copy) and the event count; the
// caller must not log concurrently.
func (w *World) Chunks() ([][]Ev, int) {
	w.mu.Lock()
	defer w.mu.Unlock()
	return w.chunks, int(w.seq)
}

// Snapshot returns a copy of the events logged so far.
func (w *World) Snapshot() []Ev {
	w.mu.Lock()
	defer w.mu.Unlock()
	out := make([]Ev, 0, int(w.seq))
	for _, c := range w.chunks {
		out = append(out, c...)
	}
	return out
}

func appendU(b []byte, key string, v uint64) []byte {
	if v == 0 {
		return b
	}
	b = append(b, ',', '"')
	b = append(b, key...)
	b = append(b, '"', ':')
	return strconv.AppendUint(b, v, 10)
}

func appendS(b []byte, key string, v string) []byte {
	if v == "" {
		return b
	}
	b = append(b, ',', '"')
	b = append(b, key...)
	b = append(b, '"', ':')
	return appendJSONString(b, v)
}

func appendJSONString(b []byte, s string) []byte {
	plain := true
	for i := 0; i < len(s); i++ {
		if c := s[i]; c < 0x20 || c == '"' || c == '\\' || c >= 0x7f {
			plain = false
			break
		}
	}
	if plain {
		b = append(b, '"')
		b = append(b, s...)
		return append(b, '"')
	}
	q, _ := json.Marshal(s)
	return append(b, q...)
}

// appendEv renders one event as a JSON line (same keys as the struct tags).
func appendEv(b []byte, e *Ev) []byte {
	b = append(b, `{"q":`...)
	b = strconv.AppendUint(b, e.Seq, 10)
	b = append(b, `,"t":`...)
	b = strconv.AppendInt(b, e.T, 10)
	b = append(b, `,"k":`...)
	b = appendJSONString(b, e.K)
	b = appendS(b, "s", e.S)
	if e.Ep != 0 {
		b = append(b, `,"e":`...)
		b = strconv.AppendInt(b, int64(e.Ep), 10)
	}
	b = appendU(b, "a", e.A)
	b = appendU(b, "b", e.B)
	b = appendU(b, "c", e.C)
	b = appendU(b, "d", e.D)
	b = appendU(b, "g", e.E)
	b = appendU(b, "h", e.F)
	b = appendS(b, "x", e.X)
	b = appendS(b, "y", e.Y)
	b = appendS(b, "z", e.Z)
	b = appendS(b, "p", e.P)
	b = appendS(b, "r", e.R)
	if len(e.Ents) > 0 {
		b = append(b, `,"n":[`...)
		for i, en := range e.Ents {
			if i > 0 {
				b = append(b, ',')
			}
			b = append(b, `{"i":`...)
			b = strconv.AppendUint(b, en.I, 10)
			b = append(b, `,"t":`...)
			b = strconv.AppendUint(b, en.T, 10)
			b = append(b, `,"y":`...)
			b = strconv.AppendUint(b, uint64(en.Ty), 10)
			if en.P != "" {
				b = append(b, `,"p":`...)
				b = appendJSONString(b, en.P)
			}
			b = append(b, '}')
		}
		b = append(b, ']')
	}
	return append(b, '}', '\n')
}

// ReadEvents loads a JSONL event log.
func ReadEvents(path string) ([]Ev, error) {
	f, err := os.Open(path)
	if err != nil {
		return nil, err
	}
	defer f.Close()
	var out []Ev
	rd := bufio.NewReaderSize(f, 1<<20)
	for {
		if c, err := rd.Peek(1); err != nil || c[0] == 0 {
			break // end of file, or the zero padding of a log whose process died
		}
		b, err := rd.ReadBytes('\n')
		if err != nil {
			break
		}
		var e Ev
		if json.Unmarshal(b, &e) != nil {
			break // a torn last line after a process-fatal event
		}
		out = append(out, e)
	}
	return out, nil
}
