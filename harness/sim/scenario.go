package sim

import (
	"math/rand"
	"sort"
)

func sortSteps(s []Step) { sort.SliceStable(s, func(i, j int) bool { return s[i].At < s[j].At }) }

// Step is one timed nemesis action.
type Step struct {
	At  int       `json:"at"` // virtual ms since start
	Act string    `json:"act"`
	N   []int     `json:"n,omitempty"`
	S   string    `json:"s,omitempty"`
	F   *Fault    `json:"f,omitempty"`
	V   []float64 `json:"v,omitempty"`
}

// Scenario fully describes one execution (apart from scheduler nondeterminism).
type Scenario struct {
	Family  string `json:"family"`
	Seed    int64  `json:"seed"`
	Idx     int    `json:"idx"`
	P       Params `json:"params"`
	Steps   []Step `json:"steps"`
	Clients int    `json:"clients"`
	ThinkMs int    `json:"think_ms"`
	Keys    int    `json:"keys"`
	// client op weights (per 100): apply is the remainder
	WBarrier, WVerify, WGetConfig, WAnyNode int
	ApplyTimeoutMs                          []int `json:"apply_timeout_ms"`
	EndMs                                   int   `json:"end_ms"`  // when the fault phase ends
	TailMs                                  int   `json:"tail_ms"` // convergence budget after the last fault
	AutoRestartMs                           int   `json:"auto_restart_ms,omitempty"`
	ShutdownPhase                           bool  `json:"shutdown_phase,omitempty"`
	NoTailRestart                           bool  `json:"no_tail_restart,omitempty"`
	Quiet                                   bool  `json:"quiet,omitempty"` // fault-free run (C13 second half)
}

func pick[T any](r *rand.Rand, xs ...T) T { return xs[r.Intn(len(xs))] }

// BaseParams draws a cluster configuration from the seed.
func BaseParams(r *rand.Rand) Params {
	p := Params{}
	p.Voters = pick(r, 3, 3, 3, 5, 4, 2, 1)
	p.NonVoters = pick(r, 0, 0, 1, 2)
	p.Spares = pick(r, 0, 0, 1)
	p.HeartbeatMs = pick(r, 150, 300, 500)
	p.ElectionMs = p.HeartbeatMs
	p.LeaseMs = pick(r, p.HeartbeatMs/3, p.HeartbeatMs/2, p.HeartbeatMs)
	p.CommitMs = pick(r, 5, 10, 20)
	p.MaxAppend = pick(r, 1, 2, 4, 64)
	p.Trailing = pick[uint64](r, 0, 2, 16, 10240)
	p.SnapThreshold = pick[uint64](r, 4, 32, 8192)
	p.SnapIntervalS = pick(r, 100, 300, 1000)
	p.BatchApply = r.Intn(2) == 0
	p.ShutdownOnRemove = r.Intn(4) == 0
	p.PreVoteOff = make([]bool, p.N())
	if r.Intn(4) == 0 {
		for i := range p.PreVoteOff {
			p.PreVoteOff[i] = r.Intn(2) == 0
		}
	}
	switch r.Intn(4) {
	case 0:
		p.Flavor = Flavor{Monotonic: true}
	case 1:
		p.Flavor = Flavor{Monotonic: true, Strict: true}
	}
	p.RestoreCommitted = r.Intn(5) == 0
	if !p.RestoreCommitted && r.Intn(3) == 0 {
		p.LogCache = pick(r, 1, 4, 64, 512)
	}
	p.FSMKind = r.Intn(4)
	p.Pipeline = r.Intn(2) == 0
	p.FastPath = r.Intn(2) == 0
	p.NotifyBuf = pick(r, 0, 0, 1)
	p.NotifyDelayMs = pick(r, 0, 5, 50, 400)
	if r.Intn(3) == 0 {
		p.ApplyDelayMs = pick(r, 1, 5, 30)
		p.DelayEvery = pick[uint64](r, 1, 3, 7)
	}
	if r.Intn(3) == 0 {
		p.PersistDelayMs = pick(r, 5, 50, 200)
	}
	if r.Intn(4) == 0 {
		p.RestoreDelayMs = pick(r, 5, 50)
	}
	return p
}

func defaultScenario(family string, seed int64, idx int, r *rand.Rand) Scenario {
	sc := Scenario{Family: family, Seed: seed, Idx: idx, P: BaseParams(r)}
	sc.Clients = pick(r, 1, 2, 3, 4)
	sc.ThinkMs = pick(r, 10, 40, 120)
	sc.Keys = pick(r, 1, 2, 3)
	sc.WBarrier, sc.WVerify, sc.WGetConfig, sc.WAnyNode = 4, 4, 2, 25
	sc.ApplyTimeoutMs = []int{0, 1, 50, 50, 500}
	sc.TailMs = 0 // computed by Run from params
	return sc
}

// randomSteps generates a fully random nemesis script of n actions.
func randomSteps(r *rand.Rand, p Params, n int, membership bool) ([]Step, int) {
	var steps []Step
	t := 2 * p.HeartbeatMs
	nn := p.N()
	for i := 0; i < n; i++ {
		t += p.HeartbeatMs/2 + r.Intn(3*p.HeartbeatMs)
		k := 9
		if membership {
			k = 13
		}
		switch r.Intn(k) {
		case 0:
			steps = append(steps, Step{At: t, Act: "isolate", N: []int{r.Intn(nn)}})
		case 1:
			// random partition
			var a []int
			for j := 0; j < nn; j++ {
				if r.Intn(2) == 0 {
					a = append(a, j)
				}
			}
			steps = append(steps, Step{At: t, Act: "partition", N: a})
		case 2:
			steps = append(steps, Step{At: t, Act: "heal"})
		case 3:
			steps = append(steps, Step{At: t, Act: "crash", N: []int{r.Intn(nn)}})
		case 4:
			steps = append(steps, Step{At: t, Act: "restartall"})
		case 5:
			steps = append(steps, Step{At: t, Act: "netfaults", V: []float64{pick(r, 0, 0.05, 0.2), pick(r, 0, 0.05, 0.2), pick(r, 0, 0.3, 0.8), pick(r, 0, 0.1, 0.3), float64(pick(r, 10, 30, 120, 400))}})
		case 6:
			steps = append(steps, Step{At: t, Act: "snapshot", N: []int{r.Intn(nn)}})
		case 7:
			kinds := []string{"store", "del", "setu.CurrentTerm", "setu.LastVoteTerm", "set.LastVoteCand", "snap.create", "snap.write", "snap.close", ""}
			whens := []string{"before", "after", "error"}
			steps = append(steps, Step{At: t, Act: "arm", N: []int{r.Intn(nn)}, F: &Fault{Kind: pick(r, kinds...), Nth: 1 + r.Intn(3), When: pick(r, whens...)}})
		case 8:
			steps = append(steps, Step{At: t, Act: "oneway", N: []int{r.Intn(nn), r.Intn(nn)}})
		case 9, 10, 11:
			steps = append(steps, Step{At: t, Act: "member", S: pick(r, "addvoter", "addnonvoter", "demote", "remove"), N: []int{r.Intn(nn)}})
		case 12:
			steps = append(steps, Step{At: t, Act: "transfer", N: []int{r.Intn(nn+1) - 1}})
		}
	}
	return steps, t + 2*p.HeartbeatMs
}

// Generate builds the scenario for (family, seed, idx). It is a pure function
// of its arguments.
func Generate(family string, seed int64, idx int) Scenario {
	r := rand.New(rand.NewSource(seed*1000003 + int64(idx)*7919 + int64(len(family))))
	sc := defaultScenario(family, seed, idx, r)
	switch family {
	default: // "random"
		sc.Steps, sc.EndMs = randomSteps(r, sc.P, 10+r.Intn(25), false)
	case "shutdown":
		// C17: Shutdown() racing with every kind of client call, then calls on
		// instances that have been shut down
		sc.ShutdownPhase = true
		sc.WBarrier, sc.WVerify, sc.WGetConfig, sc.WAnyNode = 10, 10, 5, 40
		sc.P.BatchApply = r.Intn(2) == 0
		steps, end := randomSteps(r, sc.P, 6+r.Intn(10), true)
		t := sc.P.HeartbeatMs * 3
		for i := 0; i < 2+r.Intn(4); i++ {
			t += sc.P.HeartbeatMs/2 + r.Intn(4*sc.P.HeartbeatMs)
			n := r.Intn(sc.P.N())
			steps = append(steps, Step{At: t, Act: "burst", N: []int{1 + r.Intn(6)}}, Step{At: t, Act: "transfer", N: []int{-1}}, Step{At: t + r.Intn(3), Act: "shutdown", N: []int{n}},
				Step{At: t + sc.P.HeartbeatMs*(1+r.Intn(4)), Act: "restart", N: []int{n}})
		}
		sortSteps(steps)
		if t+2*sc.P.HeartbeatMs > end {
			end = t + 2*sc.P.HeartbeatMs
		}
		sc.Steps, sc.EndMs = steps, end+4*sc.P.HeartbeatMs
	case "churn":
		if sc.P.Spares == 0 {
			sc.P.Spares = 1
			sc.P.PreVoteOff = append(sc.P.PreVoteOff, false)
		}
		sc.Steps, sc.EndMs = randomSteps(r, sc.P, 10+r.Intn(25), true)
	}
	return sc
}
