package sim

import (
	"math/rand"
	"sort"
)

func sortSteps(s []Step) { sort.SliceStable(s, func(i, j int) bool { return s[i].At < s[j].At }) }

// Step is one timed nemesis action.
type Step struct {
	At  int       `json:"at"` // virtual ms since start
	Act string    `json:"act"`
	N   []int     `json:"n,omitempty"`
	S   string    `json:"s,omitempty"`
	F   *Fault    `json:"f,omitempty"`
	V   []float64 `json:"v,omitempty"`
}

// Scenario fully describes one execution (apart from scheduler nondeterminism).
type Scenario struct {
	Family  string `json:"family"`
	Seed    int64  `json:"seed"`
	Idx     int    `json:"idx"`
	P       Params `json:"params"`
	Steps   []Step `json:"steps"`
	Clients int    `json:"clients"`
	ThinkMs int    `json:"think_ms"`
	Keys    int    `json:"keys"`
	// client op weights (per 100): apply is the remainder
	WBarrier, WVerify, WGetConfig, WAnyNode int
	ApplyTimeoutMs                          []int  `json:"apply_timeout_ms"`
	EndMs                                   int    `json:"end_ms"`  // when the fault phase ends
	TailMs                                  int    `json:"tail_ms"` // convergence budget after the last fault
	AutoRestartMs                           int    `json:"auto_restart_ms,omitempty"`
	ShutdownPhase                           bool   `json:"shutdown_phase,omitempty"`
	NoTailRestart                           bool   `json:"no_tail_restart,omitempty"`
	Quiet                                   bool   `json:"quiet,omitempty"`  // fault-free run (C13 second half)
	Script                                  string `json:"script,omitempty"` // programmatic nemesis (see scripts.go) run instead of Steps
}

func pick[T any](r *rand.Rand, xs ...T) T { return xs[r.Intn(len(xs))] }

// BaseParams draws a cluster configuration from the seed.
func BaseParams(r *rand.Rand) Params {
	p := Params{}
	p.Voters = pick(r, 3, 3, 3, 5, 4, 2, 1)
	p.NonVoters = pick(r, 0, 0, 1, 2)
	p.Spares = pick(r, 0, 0, 1)
	p.HeartbeatMs = pick(r, 150, 300, 500)
	p.ElectionMs = p.HeartbeatMs
	p.LeaseMs = pick(r, p.HeartbeatMs/3, p.HeartbeatMs/2, p.HeartbeatMs)
	p.CommitMs = pick(r, 5, 10, 20)
	p.MaxAppend = pick(r, 1, 2, 4, 64)
	p.Trailing = pick[uint64](r, 0, 2, 16, 10240)
	p.SnapThreshold = pick[uint64](r, 4, 32, 8192)
	p.SnapIntervalS = pick(r, 100, 300, 1000)
	p.BatchApply = r.Intn(2) == 0
	p.ShutdownOnRemove = r.Intn(4) == 0
	p.PreVoteOff = make([]bool, p.N())
	if r.Intn(4) == 0 {
		for i := range p.PreVoteOff {
			p.PreVoteOff[i] = r.Intn(2) == 0
		}
	}
	switch r.Intn(4) {
	case 0:
		p.Flavor = Flavor{Monotonic: true}
	case 1:
		p.Flavor = Flavor{Monotonic: true, Strict: true}
	}
	p.RestoreCommitted = r.Intn(5) == 0
	if !p.RestoreCommitted && r.Intn(3) == 0 {
		p.LogCache = pick(r, 1, 4, 64, 512)
	}
	p.FSMKind = r.Intn(4)
	if r.Intn(8) == 0 {
		p.Protocol = 2
	}
	p.Pipeline = r.Intn(2) == 0
	p.FastPath = r.Intn(2) == 0
	p.NotifyBuf = pick(r, 0, 0, 1)
	p.NotifyDelayMs = pick(r, 0, 5, 50, 400)
	if r.Intn(3) == 0 {
		p.ApplyDelayMs = pick(r, 1, 5, 30)
		p.DelayEvery = pick[uint64](r, 1, 3, 7)
	}
	if r.Intn(3) == 0 {
		p.PersistDelayMs = pick(r, 5, 50, 200)
	}
	if r.Intn(4) == 0 {
		p.RestoreDelayMs = pick(r, 5, 50)
	}
	return p
}

func defaultScenario(family string, seed int64, idx int, r *rand.Rand) Scenario {
	sc := Scenario{Family: family, Seed: seed, Idx: idx, P: BaseParams(r)}
	sc.Clients = pick(r, 1, 2, 3, 4)
	sc.ThinkMs = pick(r, 10, 40, 120)
	sc.Keys = pick(r, 1, 2, 3)
	sc.WBarrier, sc.WVerify, sc.WGetConfig, sc.WAnyNode = 4, 4, 2, 25
	sc.ApplyTimeoutMs = []int{0, 1, 50, 50, 500}
	sc.TailMs = 0 // computed by Run from params
	return sc
}

// randomSteps generates a fully random nemesis script of n actions.
func randomSteps(r *rand.Rand, p Params, n int, membership bool) ([]Step, int) {
	var steps []Step
	t := 2 * p.HeartbeatMs
	nn := p.N()
	for i := 0; i < n; i++ {
		t += p.HeartbeatMs/2 + r.Intn(3*p.HeartbeatMs)
		k := 9
		if membership {
			k = 13
		}
		switch r.Intn(k) {
		case 0:
			steps = append(steps, Step{At: t, Act: "isolate", N: []int{r.Intn(nn)}})
		case 1:
			// random partition
			var a []int
			for j := 0; j < nn; j++ {
				if r.Intn(2) == 0 {
					a = append(a, j)
				}
			}
			steps = append(steps, Step{At: t, Act: "partition", N: a})
		case 2:
			steps = append(steps, Step{At: t, Act: "heal"})
		case 3:
			steps = append(steps, Step{At: t, Act: "crash", N: []int{r.Intn(nn)}})
		case 4:
			steps = append(steps, Step{At: t, Act: "restartall"})
		case 5:
			steps = append(steps, Step{At: t, Act: "netfaults", V: []float64{pick(r, 0, 0.05, 0.2), pick(r, 0, 0.05, 0.2), pick(r, 0, 0.3, 0.8), pick(r, 0, 0.1, 0.3), float64(pick(r, 10, 30, 120, 400))}})
		case 6:
			steps = append(steps, Step{At: t, Act: "snapshot", N: []int{r.Intn(nn)}})
		case 7:
			kinds := []string{"store", "del", "setu.CurrentTerm", "setu.LastVoteTerm", "set.LastVoteCand", "snap.create", "snap.write", "snap.close", ""}
			whens := []string{"before", "after", "error"}
			steps = append(steps, Step{At: t, Act: "arm", N: []int{r.Intn(nn)}, F: &Fault{Kind: pick(r, kinds...), Nth: 1 + r.Intn(3), When: pick(r, whens...)}})
		case 8:
			steps = append(steps, Step{At: t, Act: "oneway", N: []int{r.Intn(nn), r.Intn(nn)}})
		case 9, 10, 11:
			steps = append(steps, Step{At: t, Act: "member", S: pick(r, "addvoter", "addnonvoter", "demote", "remove"), N: []int{r.Intn(nn)}})
		case 12:
			steps = append(steps, Step{At: t, Act: "transfer", N: []int{r.Intn(nn+1) - 1}})
		}
	}
	return steps, t + 2*p.HeartbeatMs
}

// Generate builds the scenario for (family, seed, idx). It is a pure function
// of its arguments.
func Generate(family string, seed int64, idx int) Scenario {
	r := rand.New(rand.NewSource(seed*1000003 + int64(idx)*7919 + int64(len(family))))
	sc := defaultScenario(family, seed, idx, r)
	switch family {
	default: // "random"
		sc.Steps, sc.EndMs = randomSteps(r, sc.P, 10+r.Intn(25), false)
	case "shutdown":
		// C17: Shutdown() racing with every kind of client call, then calls on
		// instances that have been shut down
		sc.ShutdownPhase = true
		sc.P.PersistDelayMs = pick(r, 0, 4, 10)
		// a slow disk: the main loop sits in StoreLogs while snapshot requests queue up behind it
		sc.P.StoreDelayMs = pick(r, 0, 3, 6)
		sc.WBarrier, sc.WVerify, sc.WGetConfig, sc.WAnyNode = 10, 10, 5, 40
		sc.P.BatchApply = r.Intn(2) == 0
		steps, end := randomSteps(r, sc.P, 6+r.Intn(10), true)
		t := sc.P.HeartbeatMs * 3
		for i := 0; i < 2+r.Intn(4); i++ {
			t += sc.P.HeartbeatMs/2 + r.Intn(4*sc.P.HeartbeatMs)
			n := r.Intn(sc.P.N())
			// user snapshots in flight on the server that is being shut down (and on the leader, whose
			// main loop is busy storing the burst)
			steps = append(steps, Step{At: t + r.Intn(3), Act: "snapshot", N: []int{n}}, Step{At: t + 1, Act: "snapshot", N: []int{-1}})
			if r.Intn(2) == 0 {
				steps = append(steps, Step{At: t + 2, Act: "shutdown-leader"})
			}
			steps = append(steps, Step{At: t, Act: "burst", N: []int{1 + r.Intn(6)}}, Step{At: t, Act: "transfer", N: []int{-1}}, Step{At: t + r.Intn(3), Act: "shutdown", N: []int{n}},
				Step{At: t + sc.P.HeartbeatMs*(1+r.Intn(4)), Act: "restart", N: []int{n}})
		}
		sortSteps(steps)
		if t+2*sc.P.HeartbeatMs > end {
			end = t + 2*sc.P.HeartbeatMs
		}
		sc.Steps, sc.EndMs = steps, end+4*sc.P.HeartbeatMs
	case "fig8x":
		genFig8x(r, &sc)
	case "cfggate", "cfgquorum":
		// C07/C03: a membership change requested from a leader before an entry of its own term is
		// committed (cfggate: in the instant it is elected; cfgquorum: two such changes from
		// leaders of different terms whose configurations have disjoint quorums)
		p := &sc.P
		p.Voters, p.NonVoters, p.Spares = pick(r, 3, 3, 5), 0, pick(r, 0, 1)
		if family == "cfgquorum" {
			p.Voters, p.Spares = 4, 0
		}
		p.PreVoteOff = make([]bool, p.N())
		if r.Intn(2) == 0 {
			for i := range p.PreVoteOff {
				p.PreVoteOff[i] = true
			}
		}
		p.ShutdownOnRemove = false
		p.RestoreCommitted = false
		p.SnapThreshold = 8192
		p.ApplyDelayMs, p.PersistDelayMs, p.RestoreDelayMs = 0, 0, 0
		sc.Clients = 0
		sc.Script = family
	case "notifyblock":
		// C18/C01: a newly elected leader is still delivering its leadership notification to a very
		// slow NotifyCh consumer when a newer leader's heartbeat (fast path) deposes it
		p := &sc.P
		p.Voters, p.NonVoters, p.Spares = 3, 0, 0
		p.PreVoteOff = make([]bool, p.N())
		if r.Intn(2) == 0 {
			for i := range p.PreVoteOff {
				p.PreVoteOff[i] = true
			}
		}
		p.NotifyBuf = 0
		p.NotifyDelayMs = p.ElectionMs * pick(r, 8, 12, 16)
		p.NotifyLazy = true
		p.FastPath = true
		p.ShutdownOnRemove = false
		p.RestoreCommitted = false
		sc.Clients = pick(r, 0, 1)
		sc.Script = "notifyblock"
	case "longstale":
		// C12: the servers that can still talk are a deposed leader with a long uncommitted suffix
		// and a follower with a shorter log that ends in a newer term; the newer leader stays down
		p := &sc.P
		p.Voters, p.NonVoters, p.Spares = pick(r, 3, 3, 5), 0, 0
		p.PreVoteOff = make([]bool, p.N())
		if r.Intn(2) == 0 {
			for i := range p.PreVoteOff {
				p.PreVoteOff[i] = true
			}
		}
		p.ShutdownOnRemove = false
		p.RestoreCommitted = false
		p.SnapThreshold = 8192
		p.MaxAppend = pick(r, 1, 4, 64)
		sc.Clients = 0
		sc.Script = "longstale"
		// nobody is restarted for the quiet tail: a restart re-reads what a server cached
		sc.NoTailRestart = r.Intn(3) > 0
	case "snapterm":
		// C04/C11: a server restores a snapshot, snapshots again before any command reaches its FSM,
		// becomes leader and has to probe a follower exactly at its snapshot boundary
		p := &sc.P
		p.Voters, p.NonVoters, p.Spares = pick(r, 3, 3, 5), 0, 0
		p.PreVoteOff = make([]bool, p.N())
		p.Trailing = pick[uint64](r, 0, 0, 1, 2)
		p.SnapThreshold, p.SnapIntervalS = 8192, 100000
		p.ShutdownOnRemove = false
		p.RestoreCommitted = false
		p.ApplyDelayMs, p.PersistDelayMs, p.RestoreDelayMs = 0, 0, 0
		p.MaxAppend = pick(r, 1, 4, 64)
		sc.Clients = 0
		sc.Script = "snapterm"
	case "dupae", "monofail", "snaptrunc", "snapleader", "snapfallback", "restorefail", "snapvote", "restoreedge", "deposeae":
		p := &sc.P
		p.Voters, p.NonVoters, p.Spares = 3, 0, 0
		p.Protocol = 0
		p.ShutdownOnRemove = false
		p.RestoreCommitted = false
		p.SnapThreshold, p.SnapIntervalS = 8192, 100000
		p.ApplyDelayMs, p.PersistDelayMs, p.RestoreDelayMs = 0, 0, 0
		sc.Clients = 0
		sc.Script = family
		switch family {
		case "dupae":
			p.Voters = pick(r, 3, 3, 5)
			p.Trailing = 10240
			p.MaxAppend = pick(r, 1, 2, 64)
		case "monofail":
			p.Flavor = Flavor{Monotonic: true, Strict: r.Intn(2) == 0}
			p.Trailing = pick[uint64](r, 0, 0, 2)
			p.LogCache = 0
		case "snaptrunc":
			p.Trailing = pick[uint64](r, 8, 10, 16)
			p.PersistDelayMs = p.ElectionMs * pick(r, 5, 7)
			p.Flavor = Flavor{}
		case "snapvote":
			p.Voters = pick(r, 3, 3, 5)
			p.Trailing = 0
			p.Flavor = Flavor{}
			if r.Intn(3) == 0 {
				p.Flavor = Flavor{Monotonic: true}
			}
		case "deposeae":
			p.Voters, p.Spares = pick(r, 3, 3, 5), 1
			p.Trailing = 10240
			p.LeaseMs = p.HeartbeatMs
			p.Pipeline = r.Intn(2) == 0
			p.FastPath = r.Intn(2) == 0
			p.BatchApply = r.Intn(2) == 0
		case "restoreedge":
			p.Trailing = 10240
			p.MaxAppend = 64
			p.Flavor = Flavor{}
		case "restorefail":
			p.Voters = pick(r, 3, 3, 5)
			p.Trailing = 0
			p.MaxAppend = pick(r, 1, 4, 64)
			p.Flavor = Flavor{}
		case "snapfallback":
			p.Voters, p.Spares = pick(r, 1, 1, 3), 1
			p.Trailing = 10240
			p.FSMKind = r.Intn(4)
		case "snapleader":
			p.Voters = 5
			p.Trailing = 0
			p.FastPath = true
			p.RestoreDelayMs = p.ElectionMs * pick(r, 5, 7)
			p.Flavor = Flavor{}
		}
		p.PreVoteOff = make([]bool, p.N())
		if r.Intn(3) == 0 || family == "snapvote" {
			for i := range p.PreVoteOff {
				p.PreVoteOff[i] = true
			}
		}
	case "promote":
		// C17/C09: membership history under one continuous leadership (join as non-voter, promote,
		// demote, remove, re-add) with VerifyLeader / Barrier / writes after every step
		p := &sc.P
		p.Voters, p.NonVoters, p.Spares = pick(r, 1, 1, 3, 2), pick(r, 0, 0, 1), pick(r, 2, 2, 3)
		p.PreVoteOff = make([]bool, p.N())
		p.ShutdownOnRemove = false
		p.RestoreCommitted = false
		p.Protocol = 0
		p.SnapThreshold = pick[uint64](r, 32, 8192)
		p.ApplyDelayMs, p.PersistDelayMs, p.RestoreDelayMs = 0, 0, 0
		sc.Clients = pick(r, 0, 1)
		sc.WVerify = 20
		sc.Script = "promote"
	case "staletn":
		// C18/C01: a TimeoutNow delivered a second time, late (see scriptStaleTN)
		p := &sc.P
		p.Voters, p.NonVoters, p.Spares = pick(r, 3, 3, 5, 2, 1), pick(r, 0, 1, 1), 0
		if p.Voters == 1 {
			p.NonVoters = pick(r, 1, 2)
		}
		p.Protocol = 0
		p.PreVoteOff = make([]bool, p.N())
		if r.Intn(3) == 0 {
			for i := range p.PreVoteOff {
				p.PreVoteOff[i] = true
			}
		}
		p.NotifyBuf = pick(r, 0, 1)
		p.NotifyDelayMs = pick(r, 0, 5, 50)
		p.ShutdownOnRemove = false
		p.RestoreCommitted = false
		sc.Clients = pick(r, 0, 1, 2)
		sc.Script = "staletn"
	case "xfervote":
		// C01/C06: a leadership-transfer candidate and an ordinary candidate compete for the same
		// term, and a voter that has already voted gets the other one's request late
		p := &sc.P
		p.Voters, p.NonVoters, p.Spares = 5, pick(r, 0, 0, 1), 0
		p.PreVoteOff = make([]bool, p.N())
		if r.Intn(3) == 0 {
			for i := range p.PreVoteOff {
				p.PreVoteOff[i] = true
			}
		}
		p.HeartbeatMs = pick(r, 50, 80)
		p.ElectionMs = p.HeartbeatMs * pick(r, 8, 10, 12)
		p.LeaseMs = p.HeartbeatMs
		p.ShutdownOnRemove = false
		p.RestoreCommitted = false
		p.SnapThreshold = 8192
		sc.Clients = pick(r, 0, 1)
		sc.Script = "xfervote"
	case "storefail":
		genStoreFail(r, &sc)
	case "snapcfg":
		p := &sc.P
		p.Voters, p.NonVoters, p.Spares = pick(r, 1, 3, 3), 0, 1
		p.PreVoteOff = make([]bool, p.N())
		p.ApplyDelayMs, p.DelayEvery = pick(r, 10, 30, 60), 1
		p.PersistDelayMs = pick(r, 0, 10)
		p.SnapThreshold, p.SnapIntervalS = 8192, 100000
		p.Trailing = pick[uint64](r, 0, 2, 10240)
		p.ShutdownOnRemove = false
		p.RestoreCommitted = r.Intn(2) == 0
		sc.Clients = pick(r, 0, 1)
		if p.RestoreCommitted {
			// see scriptSnapCfgRC
			p.LogCache = 0
			p.Trailing = pick[uint64](r, 0, 2)
			p.ApplyDelayMs = 0
			sc.Clients = 0
		}
		sc.Script = "snapcfg"
	case "cfgtrunc":
		p := &sc.P
		p.Voters, p.NonVoters, p.Spares = pick(r, 3, 4, 4, 5), pick(r, 1, 1, 0), 0
		p.PreVoteOff = make([]bool, p.N())
		if r.Intn(2) == 0 {
			for i := range p.PreVoteOff {
				p.PreVoteOff[i] = true
			}
		}
		p.ShutdownOnRemove = false
		p.RestoreCommitted = false
		p.SnapThreshold = 8192
		sc.Clients = 0
		sc.Script = "cfgtrunc"
	case "lease":
		genLease(r, &sc)
	case "quiet":
		genQuiet(r, &sc)
	case "prevote":
		genPreVote(r, &sc)
	case "verify":
		genVerify(r, &sc)
	case "restore":
		genRestore(r, &sc)
	case "crashpoints":
		genCrashPoints(r, &sc)
	case "fig8":
		genFig8(r, &sc)
	case "notify":
		genNotify(r, &sc)
	case "elections":
		genElections(r, &sc)
	case "clients":
		genClients(r, &sc)
	case "lagging":
		genLagging(r, &sc)
	case "churn":
		if sc.P.Spares == 0 {
			sc.P.Spares = 1
			sc.P.PreVoteOff = append(sc.P.PreVoteOff, false)
		}
		sc.Steps, sc.EndMs = randomSteps(r, sc.P, 10+r.Intn(25), true)
	}
	if sc.P.Protocol == 2 && sc.P.NonVoters > 0 {
		// protocol version 2 knows voters only (its bootstrap entry is a plain peer list)
		sc.P.Protocol = 0
	}
	return sc
}

// ---- targeted families ----

func noStoreFaults(p *Params) {}

// genLease (C13 first half, C09): the leader loses its voter majority at a
// known instant; clean timing (no random message faults), non-voters present.
func genLease(r *rand.Rand, sc *Scenario) {
	p := &sc.P
	p.Voters = pick(r, 3, 3, 5, 4, 2)
	p.NonVoters = pick(r, 0, 1, 2)
	p.Spares = 0
	p.PreVoteOff = make([]bool, p.N())
	p.LeaseMs = pick(r, p.HeartbeatMs/3, p.HeartbeatMs/2, p.HeartbeatMs)
	p.ApplyDelayMs, p.PersistDelayMs, p.RestoreDelayMs = 0, 0, 0
	p.ShutdownOnRemove = false
	sc.WVerify = 10
	t := 4 * p.HeartbeatMs
	for i := 0; i < 2+r.Intn(3); i++ {
		t += p.HeartbeatMs + r.Intn(3*p.HeartbeatMs)
		sc.Steps = append(sc.Steps, Step{At: t, Act: "lease-cut", V: []float64{float64(r.Intn(3))}})
		// writes and verifications against the cut-off leader, before and after its lease runs out
		for k := 1; k <= 6; k++ {
			at := t + k*p.LeaseMs/2 + r.Intn(10)
			sc.Steps = append(sc.Steps, Step{At: at, Act: "apply-cut-leader"}, Step{At: at + 1, Act: "verify-cut-leader"})
		}
		t += 4*p.LeaseMs + 2*p.ElectionMs + r.Intn(2*p.HeartbeatMs)
		sc.Steps = append(sc.Steps, Step{At: t, Act: "heal"})
		t += 3 * p.ElectionMs
	}
	if p.Voters >= 3 && r.Intn(2) == 0 {
		// the majority is lost through a configuration change, not through the network: one
		// follower is unreachable and another one (reachable) loses its vote
		t += 2 * p.ElectionMs
		sc.Steps = append(sc.Steps, Step{At: t, Act: "isolate-follower"}, Step{At: t + p.LeaseMs/2 + r.Intn(p.HeartbeatMs), Act: "demote-other", S: pick(r, "demote", "remove")})
		t += 6*p.LeaseMs + 3*p.ElectionMs
		sc.Steps = append(sc.Steps, Step{At: t, Act: "heal"})
		t += 3 * p.ElectionMs
	}
	sortSteps(sc.Steps)
	sc.EndMs = t + 2*p.HeartbeatMs
}

// genQuiet (C13 second half): a long fault-free run.
func genQuiet(r *rand.Rand, sc *Scenario) {
	p := &sc.P
	p.Voters = pick(r, 3, 5, 4)
	p.NonVoters = pick(r, 0, 1)
	p.Spares = 0
	p.PreVoteOff = make([]bool, p.N())
	p.HeartbeatMs = pick(r, 500, 1000)
	p.ElectionMs = p.HeartbeatMs
	p.LeaseMs = pick(r, p.HeartbeatMs/2, p.HeartbeatMs)
	p.ApplyDelayMs, p.PersistDelayMs, p.RestoreDelayMs = 0, 0, 0
	p.ShutdownOnRemove = false
	if r.Intn(2) == 0 {
		// slow log stores: an AppendEntries that carries entries is acknowledged later than a lease
		// timeout, while heartbeats (fast path) are answered at once - everybody keeps responding
		p.FastPath = true
		p.StoreDelayMs = p.LeaseMs * pick(r, 11, 15, 25) / 10
		p.Pipeline = r.Intn(2) == 0
	}
	sc.Quiet = true
	sc.Family = "quiet"
	sc.Clients = 1
	sc.ThinkMs = 400
	sc.WAnyNode = 0
	sc.ApplyTimeoutMs = []int{500}
	// light seeded message delays below Lease/4
	d := float64(p.LeaseMs / 5)
	sc.Steps = []Step{{At: 1, Act: "netfaults", V: []float64{0, 0, 0.3, 0, d}}}
	sc.EndMs = pick(r, 120, 300, 600) * 1000
}

// genPreVote (C14): isolated minorities with pre-vote enabled.
func genPreVote(r *rand.Rand, sc *Scenario) {
	p := &sc.P
	p.Voters = pick(r, 3, 5, 4, 5)
	p.NonVoters = 0
	p.Spares = 0
	p.PreVoteOff = make([]bool, p.N())
	p.ShutdownOnRemove = false
	mixed := r.Intn(3) == 0
	sc.WAnyNode = 10
	if r.Intn(2) == 0 {
		// a quiet cluster: the isolated server's log does not fall behind, so only the
		// "we have a leader" rule stands between its pre-vote and an election
		sc.Clients = 0
	}
	t := 4 * p.HeartbeatMs
	for i := 0; i < 1+r.Intn(3); i++ {
		k := 1
		if p.Voters >= 5 && r.Intn(2) == 0 {
			k = 2
		}
		var iso []int
		for len(iso) < k {
			x := r.Intn(p.Voters)
			dup := false
			for _, y := range iso {
				dup = dup || y == x
			}
			if !dup {
				iso = append(iso, x)
			}
		}
		if mixed {
			// some of the others run without pre-vote; the isolated ones keep it
			for j := range p.PreVoteOff {
				p.PreVoteOff[j] = r.Intn(2) == 0
			}
			for _, x := range iso {
				p.PreVoteOff[x] = false
			}
		}
		t += p.HeartbeatMs + r.Intn(4*p.HeartbeatMs)
		if !mixed && r.Intn(2) == 0 {
			// the server that will be isolated first receives the leadership through a transfer
			sc.Steps = append(sc.Steps, Step{At: t, Act: "transfer", N: []int{iso[0]}}, Step{At: t + 3*p.ElectionMs, Act: "burst", N: []int{2}})
			t += 4 * p.ElectionMs
		}
		if k == 2 && r.Intn(2) == 0 {
			// an isolated pair with unequal logs: one of the two misses entries before both are cut off
			// together (they keep talking to each other: the one that is behind is refused by the other)
			sc.Steps = append(sc.Steps, Step{At: t - 2*p.HeartbeatMs, Act: "isolate", N: []int{iso[0]}}, Step{At: t - 2*p.HeartbeatMs + 5, Act: "burst", N: []int{3 + r.Intn(5)}},
				Step{At: t - 1, Act: "burst", N: []int{1}}, Step{At: t, Act: "heal"})
		}
		sc.Steps = append(sc.Steps, Step{At: t, Act: "pv-isolate", N: iso})
		t += p.ElectionMs * (1 + r.Intn(60))
		if r.Intn(2) == 0 {
			// the links come back one direction at a time: for a while the isolated servers can
			// ask (and are answered) but still hear nothing from the leader
			sc.Steps = append(sc.Steps, Step{At: t, Act: "pv-asym", N: iso})
			t += p.ElectionMs * (2 + r.Intn(4))
		}
		sc.Steps = append(sc.Steps, Step{At: t, Act: "heal"})
		t += 5 * p.ElectionMs
		sc.Steps = append(sc.Steps, Step{At: t, Act: "pv-check"})
		if mixed {
			break // PreVoteOff is static: one isolation per mixed run
		}
	}
	sc.EndMs = t + p.HeartbeatMs
}

// genVerify (C09): configurations mixing voters and non-voters, the leader
// cut off from voters while non-voters stay reachable, VerifyLeader before,
// at and after the cut and during elections elsewhere.
func genVerify(r *rand.Rand, sc *Scenario) {
	p := &sc.P
	shape := pick(r, [2]int{3, 0}, [2]int{3, 1}, [2]int{3, 2}, [2]int{2, 1}, [2]int{4, 1}, [2]int{5, 0}, [2]int{1, 2}, [2]int{5, 2})
	p.Voters, p.NonVoters, p.Spares = shape[0], shape[1], 0
	p.PreVoteOff = make([]bool, p.N())
	p.LeaseMs = p.HeartbeatMs // the longest lease allowed: a cut-off leader lives long enough to be asked
	p.ShutdownOnRemove = false
	sc.WVerify = 25
	sc.WAnyNode = 30
	t := 4 * p.HeartbeatMs
	demoted := p.Voters >= 4 && r.Intn(2) == 0
	if demoted {
		// voters demoted under the leader that is then cut off from the remaining voters: the
		// demoted servers stay reachable and keep answering, but they no longer count
		sc.Steps = append(sc.Steps, Step{At: 3 * p.HeartbeatMs, Act: "demote-other", S: "demote"}, Step{At: 3*p.HeartbeatMs + p.HeartbeatMs/2, Act: "demote-other", S: "demote"})
	}
	for i := 0; i < 3+r.Intn(3); i++ {
		t += p.HeartbeatMs/2 + r.Intn(2*p.HeartbeatMs)
		shape := pick(r, 1, 1, 2, 0)
		if demoted && i == 0 {
			shape = 1
		}
		sc.Steps = append(sc.Steps, Step{At: t - 5, Act: "verify", N: []int{-1}}, Step{At: t, Act: "lease-cut", V: []float64{float64(shape)}})
		for k := 0; k < 8; k++ {
			sc.Steps = append(sc.Steps, Step{At: t + k*p.LeaseMs/4 + r.Intn(5), Act: "verify-cut-leader"})
		}
		t += 3*p.ElectionMs + r.Intn(2*p.HeartbeatMs)
		sc.Steps = append(sc.Steps, Step{At: t - p.ElectionMs, Act: "verify-cut-leader"}, Step{At: t, Act: "heal"})
		t += 2 * p.ElectionMs
	}
	sortSteps(sc.Steps)
	sc.EndMs = t + p.HeartbeatMs
}

// genRestore (C20): user Restore at every position relative to the log, with
// writes, membership changes and transfers in flight and followers lagging.
func genRestore(r *rand.Rand, sc *Scenario) {
	p := &sc.P
	p.Voters = pick(r, 3, 3, 5, 1, 2)
	p.NonVoters = pick(r, 0, 0, 1)
	p.Spares = pick(r, 0, 1)
	p.PreVoteOff = make([]bool, p.N())
	p.RestoreCommitted = false
	p.ShutdownOnRemove = false
	sc.Clients = pick(r, 0, 1, 2, 4)
	t := 4 * p.HeartbeatMs
	for i := 0; i < 1+r.Intn(3); i++ {
		t += p.HeartbeatMs + r.Intn(3*p.HeartbeatMs)
		sc.Steps = append(sc.Steps, Step{At: t, Act: "burst", N: []int{r.Intn(8)}})
		cutLeader := false
		kind := r.Intn(8)
		if kind >= 4 && kind <= 6 {
			kind = 4
			// needs other voters to carry on, and bites hardest on a store that is emptied by the restore
			if p.Voters < 3 {
				p.Voters = 3
				p.PreVoteOff = make([]bool, p.N())
			}
			if r.Intn(3) > 0 {
				p.Flavor = Flavor{Monotonic: true, Strict: r.Intn(2) == 0}
			}
		}
		switch kind {
		case 0:
			sc.Steps = append(sc.Steps, Step{At: t + 1, Act: "isolate", N: []int{r.Intn(p.N())}})
		case 1:
			sc.Steps = append(sc.Steps, Step{At: t + 1, Act: "crash", N: []int{r.Intn(p.N())}})
		case 2:
			sc.Steps = append(sc.Steps, Step{At: t + 1, Act: "member", S: pick(r, "addvoter", "addnonvoter", "demote", "remove"), N: []int{r.Intn(p.N())}})
		case 3:
			if r.Intn(2) == 0 {
				sc.Steps = append(sc.Steps, Step{At: t + 1, Act: "transfer", N: []int{-1}})
			} else {
				// a transfer that stays in progress for an election timeout: its target is unreachable
				sc.Steps = append(sc.Steps, Step{At: t, Act: "transfer-to-cut"})
			}
		case 4:
			cutLeader = true
			// the leader is cut off and keeps appending: when the next leader restores, the index it
			// burns lies inside the old leader's uncommitted suffix
			sc.Steps = append(sc.Steps, Step{At: t + 1, Act: "lease-cut", V: []float64{0}})
			for k := 0; k < 6+r.Intn(10); k++ {
				sc.Steps = append(sc.Steps, Step{At: t + 2, Act: "apply-cut-leader"})
			}
			t += 3*p.ElectionMs + p.LeaseMs
			sc.Steps = append(sc.Steps, Step{At: t, Act: "burst", N: []int{1 + r.Intn(3)}})
		}
		variant := r.Intn(5)
		if cutLeader {
			variant = r.Intn(3) // the burned index has to fall inside the old leader's stale suffix
		}
		rt := t + 2 + r.Intn(3)
		if r.Intn(3) == 0 {
			// a membership change taken up in the instant of the restore is still uncommitted:
			// the restore has to be refused and must leave the calls in flight alone
			sc.Steps = append(sc.Steps, Step{At: rt - r.Intn(2), Act: "member", S: pick(r, "addvoter", "addnonvoter", "demote", "remove"), N: []int{r.Intn(p.N())}})
		}
		// writes dispatched in the very instant of the restore are in flight when it is taken up
		sc.Steps = append(sc.Steps, Step{At: rt, Act: "burst", N: []int{2 + r.Intn(6)}}, Step{At: rt, Act: "restore", V: []float64{float64(variant)}}, Step{At: t + 3 + r.Intn(5), Act: "burst", N: []int{r.Intn(5)}})
		t += 2*p.HeartbeatMs + r.Intn(3*p.HeartbeatMs)
		sc.Steps = append(sc.Steps, Step{At: t, Act: "heal"}, Step{At: t + 1, Act: "restartall"})
	}
	sortSteps(sc.Steps)
	sc.EndMs = t + 2*p.HeartbeatMs
}

var opKinds = []string{"store", "del.suffix", "del.prefix", "del.all", "setu.CurrentTerm", "setu.LastVoteTerm", "set.LastVoteCand", "snap.create", "snap.write", "snap.close"}

// genCrashPoints (C10, C11, C06): a crash before / after the k-th occurrence
// of every kind of store operation, on runs with elections, replication,
// truncation, snapshots, compaction, installs and membership changes.
func genCrashPoints(r *rand.Rand, sc *Scenario) {
	p := &sc.P
	p.Voters = pick(r, 3, 3, 5, 2, 1)
	p.Trailing = pick[uint64](r, 0, 2, 16)
	p.SnapThreshold = pick[uint64](r, 4, 8, 32)
	p.SnapIntervalS = pick(r, 100, 300)
	p.RestoreCommitted = r.Intn(2) == 0
	if p.RestoreCommitted {
		p.LogCache = 0
	}
	p.ShutdownOnRemove = false
	if r.Intn(4) == 0 {
		p.StableDelayMs = pick(r, 2, 10, 30)
	}
	sc.AutoRestartMs = pick(r, 50, 300, 1000)
	if r.Intn(2) == 0 {
		// snapshots racing with membership changes on a busy FSM
		p.ApplyDelayMs, p.DelayEvery = pick(r, 5, 30), pick[uint64](r, 1, 3)
		p.PersistDelayMs = pick(r, 0, 20, 100)
	}
	steps, end := randomSteps(r, *p, 6+r.Intn(10), true)
	t := 3 * p.HeartbeatMs
	for i := 0; i < 8+r.Intn(10); i++ {
		t += p.HeartbeatMs/3 + r.Intn(2*p.HeartbeatMs)
		steps = append(steps, Step{At: t, Act: pick(r, "arm", "arm", "arm-leader"), N: []int{r.Intn(p.N())},
			F: &Fault{Kind: pick(r, opKinds...), Nth: 1 + r.Intn(4), When: pick(r, "before", "after", "before", "after", "error")}})
	}
	sortSteps(steps)
	if t > end {
		end = t
	}
	sc.Steps, sc.EndMs = steps, end+2*p.HeartbeatMs
}

// genFig8 (C03, C02, C04, C05): leaders are repeatedly cut off together with
// a minority right after a burst of writes, so old-term entries sit on some
// servers without being committed while later terms move on; crashes and
// restarts of several servers in between.
func genFig8(r *rand.Rand, sc *Scenario) {
	p := &sc.P
	p.Voters = pick(r, 5, 5, 3, 4)
	p.NonVoters, p.Spares = 0, 0
	p.PreVoteOff = make([]bool, p.N())
	if r.Intn(3) == 0 {
		for i := range p.PreVoteOff {
			p.PreVoteOff[i] = true
		}
	}
	p.Trailing = pick[uint64](r, 0, 2, 16, 10240)
	p.SnapThreshold = pick[uint64](r, 4, 32, 8192)
	p.ShutdownOnRemove = false
	sc.AutoRestartMs = 0
	t := 3 * p.HeartbeatMs
	for i := 0; i < 4+r.Intn(8); i++ {
		t += p.HeartbeatMs/2 + r.Intn(2*p.HeartbeatMs)
		sc.Steps = append(sc.Steps, Step{At: t, Act: "burst", N: []int{1 + r.Intn(6)}})
		switch r.Intn(5) {
		case 0, 1:
			sc.Steps = append(sc.Steps, Step{At: t + r.Intn(3), Act: "lease-cut", V: []float64{2}}) // leader + a minority
		case 2:
			sc.Steps = append(sc.Steps, Step{At: t + r.Intn(3), Act: "crash-leader"})
		case 3:
			sc.Steps = append(sc.Steps, Step{At: t + r.Intn(3), Act: "arm-leader", F: &Fault{Kind: "store", Nth: 1 + r.Intn(2), When: pick(r, "before", "after", "error")}})
		case 4:
			sc.Steps = append(sc.Steps, Step{At: t + r.Intn(3), Act: "isolate-leader"})
		}
		t += p.ElectionMs + r.Intn(3*p.ElectionMs)
		sc.Steps = append(sc.Steps, Step{At: t, Act: "burst", N: []int{1 + r.Intn(4)}})
		if r.Intn(3) == 0 {
			sc.Steps = append(sc.Steps, Step{At: t + 2, Act: "crash", N: []int{r.Intn(p.N())}}, Step{At: t + 3, Act: "crash", N: []int{r.Intn(p.N())}})
		}
		t += p.HeartbeatMs/2 + r.Intn(p.HeartbeatMs)
		sc.Steps = append(sc.Steps, Step{At: t, Act: pick(r, "heal", "heal", "restartall")})
		if r.Intn(2) == 0 {
			sc.Steps = append(sc.Steps, Step{At: t + 1, Act: "restartall"})
		}
	}
	sortSteps(sc.Steps)
	sc.EndMs = t + 2*p.HeartbeatMs
}

// genNotify (C18): frequent leadership transitions with slow consumers.
func genNotify(r *rand.Rand, sc *Scenario) {
	p := &sc.P
	p.Voters = pick(r, 3, 3, 1, 5, 2)
	p.NonVoters = pick(r, 0, 1)
	p.NotifyBuf = pick(r, 0, 1)
	p.NotifyDelayMs = pick(r, 0, 20, p.ElectionMs, 3*p.ElectionMs)
	p.ShutdownOnRemove = false
	sc.WAnyNode = 30
	t := 3 * p.HeartbeatMs
	for i := 0; i < 8+r.Intn(12); i++ {
		t += p.HeartbeatMs/2 + r.Intn(2*p.HeartbeatMs)
		switch r.Intn(6) {
		case 0, 1:
			sc.Steps = append(sc.Steps, Step{At: t, Act: "isolate-leader"}, Step{At: t + p.LeaseMs*2 + r.Intn(2*p.ElectionMs), Act: "heal"})
			t += p.LeaseMs*2 + 2*p.ElectionMs
		case 2, 3:
			sc.Steps = append(sc.Steps, Step{At: t, Act: "transfer", N: []int{r.Intn(p.N()+1) - 1}})
		case 4:
			sc.Steps = append(sc.Steps, Step{At: t, Act: "member", S: pick(r, "remove", "demote", "addvoter"), N: []int{r.Intn(p.N())}})
		case 5:
			sc.Steps = append(sc.Steps, Step{At: t, Act: "crash-leader"}, Step{At: t + p.HeartbeatMs, Act: "restartall"})
		}
		sc.Steps = append(sc.Steps, Step{At: t + 1, Act: "sample"}, Step{At: t + p.HeartbeatMs/3, Act: "sample"})
	}
	sortSteps(sc.Steps)
	sc.EndMs = t + 2*p.HeartbeatMs
}

// genElections (C01, C06): contested elections with heavy message delay and
// duplication, crashes around the vote writes, restarts of everybody,
// transfers racing with partitions, membership changes racing with elections.
func genElections(r *rand.Rand, sc *Scenario) {
	p := &sc.P
	p.Voters = pick(r, 3, 5, 4, 2, 5)
	p.NonVoters = pick(r, 0, 0, 1)
	p.Spares = pick(r, 0, 1, 2)
	p.PreVoteOff = make([]bool, p.N())
	for i := range p.PreVoteOff {
		p.PreVoteOff[i] = r.Intn(2) == 0
	}
	p.ShutdownOnRemove = r.Intn(4) == 0
	if r.Intn(3) == 0 {
		// slow stable store: the term / vote writes take a while, heartbeats (fast path) and API readers run meanwhile
		p.StableDelayMs = pick(r, 2, 10, 30)
		p.FastPath = true
	}
	sc.AutoRestartMs = pick(r, 0, 100, 500)
	t := 2 * p.HeartbeatMs
	sc.Steps = append(sc.Steps, Step{At: t, Act: "netfaults", V: []float64{pick(r, 0, 0.1), pick(r, 0, 0.1), pick(r, 0.3, 0.8), pick(r, 0.1, 0.4), float64(pick(r, p.ElectionMs/2, p.ElectionMs, 3*p.ElectionMs))}})
	for i := 0; i < 10+r.Intn(15); i++ {
		t += p.HeartbeatMs/3 + r.Intn(2*p.HeartbeatMs)
		switch r.Intn(9) {
		case 0:
			sc.Steps = append(sc.Steps, Step{At: t, Act: "isolate-leader"})
		case 1:
			sc.Steps = append(sc.Steps, Step{At: t, Act: "oneway", N: []int{r.Intn(p.N()), r.Intn(p.N())}})
		case 2:
			sc.Steps = append(sc.Steps, Step{At: t, Act: "heal"})
		case 3:
			sc.Steps = append(sc.Steps, Step{At: t, Act: "arm", N: []int{r.Intn(p.N())}, F: &Fault{Kind: pick(r, "setu.CurrentTerm", "setu.LastVoteTerm", "set.LastVoteCand"), Nth: 1 + r.Intn(2), When: pick(r, "before", "after", "error")}})
		case 4:
			for j := 0; j < p.N(); j++ {
				sc.Steps = append(sc.Steps, Step{At: t, Act: "crash", N: []int{j}})
			}
			sc.Steps = append(sc.Steps, Step{At: t + r.Intn(p.HeartbeatMs), Act: "restartall"})
		case 5:
			sc.Steps = append(sc.Steps, Step{At: t, Act: "transfer", N: []int{r.Intn(p.N()+1) - 1}}, Step{At: t + r.Intn(5), Act: pick(r, "isolate-leader", "wait")})
		case 6:
			sc.Steps = append(sc.Steps, Step{At: t, Act: "member", S: pick(r, "addvoter", "addvoter", "demote", "remove", "addnonvoter"), N: []int{r.Intn(p.N())}})
		case 7:
			sc.Steps = append(sc.Steps, Step{At: t, Act: "restartall"})
		case 8:
			sc.Steps = append(sc.Steps, Step{At: t, Act: "crash-leader"})
		}
	}
	sortSteps(sc.Steps)
	sc.EndMs = t + 2*p.HeartbeatMs
}

// genClients (C08): many concurrent callers against any server, every call
// kind, enqueue timeouts 0 / 1 ms / long, leader changes and transfers.
func genClients(r *rand.Rand, sc *Scenario) {
	p := &sc.P
	p.Voters = pick(r, 3, 3, 5, 1)
	p.Spares = 0
	p.ShutdownOnRemove = false
	if r.Intn(4) == 0 {
		p.Protocol = 2
	}
	if r.Intn(2) == 0 {
		// an FSM that lags behind the commit index: what Barrier is for
		p.ApplyDelayMs, p.DelayEvery = pick(r, 2, 10, 40), pick[uint64](r, 1, 2, 5)
	}
	sc.Clients = pick(r, 2, 4, 6)
	sc.Keys = pick(r, 1, 2)
	sc.ThinkMs = pick(r, 5, 20, 60)
	sc.WBarrier, sc.WVerify, sc.WGetConfig, sc.WAnyNode = 10, 3, 2, 35
	sc.ApplyTimeoutMs = []int{0, 1, 1, 50, 500}
	t := 3 * p.HeartbeatMs
	for i := 0; i < 6+r.Intn(10); i++ {
		t += p.HeartbeatMs/2 + r.Intn(2*p.HeartbeatMs)
		switch r.Intn(7) {
		case 0:
			sc.Steps = append(sc.Steps, Step{At: t, Act: "isolate-leader"})
		case 1:
			sc.Steps = append(sc.Steps, Step{At: t, Act: "heal"})
		case 2, 3:
			sc.Steps = append(sc.Steps, Step{At: t, Act: "transfer", N: []int{r.Intn(p.N()+1) - 1}})
		case 4:
			sc.Steps = append(sc.Steps, Step{At: t, Act: "crash-leader"}, Step{At: t + p.HeartbeatMs, Act: "restartall"})
		case 5:
			sc.Steps = append(sc.Steps, Step{At: t, Act: "netfaults", V: []float64{pick(r, 0, 0.05), pick(r, 0, 0.1), pick(r, 0, 0.5), pick(r, 0, 0.2), 30}})
		case 6:
			sc.Steps = append(sc.Steps, Step{At: t, Act: "burst", N: []int{2 + r.Intn(8)}})
		}
	}
	sc.EndMs = t + 2*p.HeartbeatMs
}

// genLagging (C12, C11): followers fall behind while the leader snapshots
// and compacts past them; restarts; newly added servers; stale suffixes.
func genLagging(r *rand.Rand, sc *Scenario) {
	p := &sc.P
	p.Voters = pick(r, 3, 3, 5)
	p.Spares = pick(r, 0, 1)
	p.Trailing = pick[uint64](r, 0, 2, 16)
	p.SnapThreshold = pick[uint64](r, 4, 8)
	p.SnapIntervalS = pick(r, 100, 300)
	p.ShutdownOnRemove = false
	sc.ThinkMs = pick(r, 5, 20)
	t := 3 * p.HeartbeatMs
	for i := 0; i < 3+r.Intn(5); i++ {
		t += p.HeartbeatMs/2 + r.Intn(2*p.HeartbeatMs)
		v := r.Intn(p.N())
		switch r.Intn(4) {
		case 0:
			sc.Steps = append(sc.Steps, Step{At: t, Act: "isolate", N: []int{v}})
		case 1:
			sc.Steps = append(sc.Steps, Step{At: t, Act: "crash", N: []int{v}})
		case 2:
			sc.Steps = append(sc.Steps, Step{At: t, Act: "lease-cut", V: []float64{2}})
		case 3:
			sc.Steps = append(sc.Steps, Step{At: t, Act: "oneway", N: []int{v, r.Intn(p.N())}})
		}
		for k := 0; k < 2+r.Intn(4); k++ {
			t += p.HeartbeatMs/2 + r.Intn(p.HeartbeatMs)
			sc.Steps = append(sc.Steps, Step{At: t, Act: "burst", N: []int{3 + r.Intn(10)}}, Step{At: t + 5, Act: "snapshot", N: []int{-1}})
		}
		if p.Spares > 0 && r.Intn(2) == 0 {
			sc.Steps = append(sc.Steps, Step{At: t + 6, Act: "member", S: pick(r, "addvoter", "addnonvoter"), N: []int{p.N() - 1}})
		}
		if r.Intn(2) == 0 {
			// a snapshot taken while a configuration change cannot commit: the leader is cut off,
			// is asked to change the membership and to snapshot before its lease runs out
			t += p.HeartbeatMs
			sc.Steps = append(sc.Steps, Step{At: t, Act: "heal"}, Step{At: t + 2*p.ElectionMs, Act: "lease-cut", V: []float64{0}},
				Step{At: t + 2*p.ElectionMs + 2, Act: "member", S: pick(r, "addvoter", "remove", "demote", "addnonvoter"), N: []int{r.Intn(p.N())}},
				Step{At: t + 2*p.ElectionMs + 4 + r.Intn(p.LeaseMs/2+1), Act: "snapshot", N: []int{-1}})
			t += 2*p.ElectionMs + p.LeaseMs
		}
		t += p.HeartbeatMs + r.Intn(2*p.HeartbeatMs)
		sc.Steps = append(sc.Steps, Step{At: t, Act: "heal"}, Step{At: t + 1, Act: "restartall"})
	}
	sortSteps(sc.Steps)
	sc.EndMs = t + 2*p.HeartbeatMs
}

// genFig8x (C03, C02, C05): the paper's Figure 8, driven by a script that
// reacts to who is leader (scripts.go): an old-term entry reaches a majority
// under a later leader whose own-term no-op cannot be stored by the followers;
// then a server with a shorter log but a higher last term is elected.
func genFig8x(r *rand.Rand, sc *Scenario) {
	p := &sc.P
	p.Voters, p.NonVoters, p.Spares = 5, 0, 0
	p.PreVoteOff = make([]bool, 5)
	if r.Intn(2) == 0 {
		for i := range p.PreVoteOff {
			p.PreVoteOff[i] = true
		}
	}
	p.MaxAppend = 1
	p.Trailing = 10240
	p.SnapThreshold = 8192
	p.RestoreCommitted = false
	p.LogCache = 0
	p.Flavor = Flavor{}
	p.ShutdownOnRemove = false
	p.ApplyDelayMs, p.PersistDelayMs, p.RestoreDelayMs = 0, 0, 0
	p.Pipeline = r.Intn(2) == 0
	sc.Clients = 0
	sc.Script = "fig8x"
	sc.EndMs = 0
}

// genStoreFail (C05, C03, C04): followers whose log store starts failing (they
// reject AppendEntries with entries but keep answering heartbeats) while other
// voters are cut off, so that the leader's majority hinges on followers that
// did not store what they were sent; pipelined replication on.
func genStoreFail(r *rand.Rand, sc *Scenario) {
	p := &sc.P
	p.Voters = pick(r, 3, 3, 5)
	p.NonVoters = pick(r, 0, 1)
	p.Spares = 0
	p.PreVoteOff = make([]bool, p.N())
	p.Pipeline = r.Intn(4) != 0
	p.RestoreCommitted = false
	p.ShutdownOnRemove = false
	sc.ThinkMs = pick(r, 5, 20)
	t := 3 * p.HeartbeatMs
	for i := 0; i < 4+r.Intn(6); i++ {
		t += p.HeartbeatMs/2 + r.Intn(2*p.HeartbeatMs)
		a := r.Intn(p.Voters)
		b := (a + 1 + r.Intn(p.Voters-1)) % p.Voters
		sc.Steps = append(sc.Steps, Step{At: t, Act: "arm-sticky", N: []int{a}, S: "store", V: []float64{float64(r.Intn(4))}})
		if r.Intn(2) == 0 {
			sc.Steps = append(sc.Steps, Step{At: t + r.Intn(20), Act: "isolate", N: []int{b}})
		}
		sc.Steps = append(sc.Steps, Step{At: t + 5, Act: "burst", N: []int{2 + r.Intn(6)}})
		t += p.HeartbeatMs + r.Intn(2*p.HeartbeatMs)
		sc.Steps = append(sc.Steps, Step{At: t, Act: "disarm", N: []int{a}}, Step{At: t + 1, Act: "heal"})
		if r.Intn(3) == 0 {
			sc.Steps = append(sc.Steps, Step{At: t + 2, Act: "crash-leader"}, Step{At: t + p.HeartbeatMs, Act: "restartall"})
		}
	}
	sortSteps(sc.Steps)
	sc.EndMs = t + 2*p.HeartbeatMs
}
